import MLPE.Proofs.Store

/-!
# C18 — the filesystem artifact store is a write-once map keyed exactly by node id

Property theorems only (helper lemmas live in `MLPE/Proofs/Store.lean`).
Quantification: every codec with a round trip, every finite sequence of `save`/`load`
operations over arbitrary contexts and node ids (strings; the id is used verbatim as a file-name
stem, so dots, glob metacharacters and prefixes of other ids are all covered).
-/

namespace MLPE.Store

variable {V B : Type}

/-- **C18 (refinement)**: started from an empty directory, any operation sequence produces exactly
the results of the write-once map `Key → Option V`, and the directory keeps denoting that map. -/
theorem C18_refines_map (c : Codec V B) (hrt : c.RoundTrip) (ops : List (Op V)) :
    (run c FS.empty ops).2 = (specRun (canEnc c) Spec.empty ops).2 ∧
    abs c (run c FS.empty ops).1 = (specRun (canEnc c) Spec.empty ops).1 := by
  have h := run_refines hrt ops (decodable_empty c)
  rw [abs_empty] at h
  exact ⟨h.1, h.2.1⟩

/-- no operation sequence ever yields a file that exists but cannot be decoded (no torn file). -/
theorem C18_never_corrupt (c : Codec V B) (hrt : c.RoundTrip) (ops : List (Op V)) :
    Res.corrupt ∉ (run c FS.empty ops).2 := by
  rw [(C18_refines_map c hrt ops).1]
  generalize (Spec.empty : Spec V) = m
  induction ops generalizing m with
  | nil => simp [specRun]
  | cons op ops ih =>
    simp only [specRun, List.mem_cons, not_or]
    refine ⟨?_, ih _⟩
    cases op with
    | save k v f =>
      simp only [specStep]
      split
      · simp
      · split <;> simp
    | load k => simp only [specStep]; split <;> simp

/-! The clauses of the property, read off the spec (they hold of the implementation model by
`C18_refines_map`). `m` is any reachable abstract state. -/

/-- load returns what was saved under exactly that key, in either format -/
theorem C18_load_after_save (canE : Fmt → V → Bool) (m : Spec V) (k : Key) (v : V) (f : Fmt)
    (hfree : m k = none) (henc : canE f v = true) :
    (specStep canE (specStep canE m (.save k v f)).1 (.load k)).2 = .value v := by
  simp [specStep, hfree, henc]

/-- a second save under an existing key is rejected and leaves the stored value intact -/
theorem C18_second_save_rejected (canE : Fmt → V → Bool) (m : Spec V) (k : Key) (v v' : V) (f : Fmt)
    (h : m k = some v) :
    specStep canE m (.save k v' f) = (m, .alreadyExists) := by
  simp [specStep, h]

/-- load of a key never saved is rejected -/
theorem C18_load_absent (canE : Fmt → V → Bool) (m : Spec V) (k : Key) (h : m k = none) :
    specStep canE m (.load k) = (m, .doesNotExist) := by
  simp [specStep, h]

/-- a failed save does not make the key appear saved -/
theorem C18_failed_save_leaves_nothing (canE : Fmt → V → Bool) (m : Spec V) (k : Key) (v : V) (f : Fmt)
    (hfree : m k = none) (henc : canE f v = false) :
    specStep canE m (.save k v f) = (m, .dumpFailed) := by
  simp [specStep, hfree, henc]

/-- distinct keys never alias: a save under `k` changes no other key -/
theorem C18_no_alias (canE : Fmt → V → Bool) (m : Spec V) (k k' : Key) (v : V) (f : Fmt)
    (hne : k' ≠ k) : (specStep canE m (.save k v f)).1 k' = m k' := by
  simp only [specStep]
  split
  · rfl
  · split <;> simp [hne]

/-- the same on the file level: two (key, format) pairs share a file name only if they are equal -/
theorem C18_file_names_injective {k k' : Key} {f f' : Fmt} (h : pathOf k f = pathOf k' f') :
    k = k' ∧ f = f' := pathOf_inj h

/-! Non-vacuity: a codec with a round trip exists and a non-trivial history meets the hypotheses. -/
def demoCodec : Codec String (Fmt × String) where
  enc := fun f v => if v = "unserializable" then none else some (f, v)
  dec := fun f b => if b.1 = f then some b.2 else none

example : demoCodec.RoundTrip := by
  intro f v b h
  simp only [demoCodec] at h ⊢
  split at h
  · cases h
  · cases h; simp

example :
    let k1 : Key := ⟨⟨"m", "p"⟩, "x"⟩
    let k2 : Key := ⟨⟨"m", "p"⟩, "x.y"⟩
    (run demoCodec FS.empty
      [.save k2 "v2" .pickle, .load k1, .save k1 "v1" .json, .load k1, .load k2,
       .save k1 "other" .pickle, .save ⟨⟨"m", "q"⟩, "x"⟩ "unserializable" .json, .load ⟨⟨"m", "q"⟩, "x"⟩]).2
    = [.ok, .doesNotExist, .ok, .value "v1", .value "v2", .alreadyExists, .dumpFailed, .doesNotExist] := by
  decide

end MLPE.Store

import MLPE.Proofs.EngTasks
import MLPE.Proofs.Budget
import MLPE.Proofs.OneDemo

/-!
# C10 — one-of yields the first successful candidate, lazily, and contains failures

General facts of the engine model, local to `_run_oneof` (every program, every state):
* candidates are tried strictly in declared order: trying `cand :: rest` opens exactly `cand`, starts exactly
  one sub-DAG task for it, and either waits for it, or takes its value (`C10_first_success_wins`), or — only
  if that sub-DAG has a recorded failure — goes on to `rest` (`C10_next_only_after_failure`);
  nothing of `rest` is opened or started before that (`C10_waits_for_current_candidate`);
* the edge from a candidate to its one-of head is not part of any reduced DAG (`C10_candidate_edge_not_in_reduced_dags`),
  so later candidates and the nodes only they need are not launched by anybody — unless they are ordinary dependencies
  of a needed node too;
* when every candidate failed: nested → the head gets `OneOfDoesNotHaveResultError` as its (contained)
  result and the enclosing scope is notified; top level → `run()` is woken and the one-of task fails with it
  (`C10_all_failed`).
**Pipelines with switches and one-ofs (any nesting, no recurrent subgraph), all schedules — safety**
(theorems at the end of the file, from the invariant of `Proofs/Safe.lean`): for every solution `val` of the dataflow
equations in which a one-of head has the value of the first candidate, in declared order, that has one
(`SolutionOne`), in every reachable state
* the value stored for a one-of head is that first candidate's value (`C10_head_value_is_first_success`), every stored
  value and every body argument is the semantic one (`C10_results_agree`, `C10_body_arguments`);
* a failure stored inside a one-of scope belongs to a node that has no value (`C10_contained_failure_has_no_value`), and
  no consumer body is ever invoked with such an object (`C10_body_arguments`: the arguments are the dataflow values);
* a returned value is the output's (`C10_returned_value`); an error outcome has a cause, which for
  `OneOfDoesNotHaveResultError` means that no candidate has a value (`C10_error_has_cause`);
* laziness: a started node is needed — for a candidate: every earlier candidate of its one-of has no value
  (`C10_only_needed_nodes_run`, `C10_unneeded_node_never_runs`).
The key lemma is `hasError_none`: *an exception stored for any node of a candidate's reduced DAG means the candidate has
no value* — true because every node of a reduced DAG reaches its destination along dependency edges
(`GraphReach.between_sound`) and neither case edges nor candidate→head edges are such edges (repo fix cd71782; before
it, the lemma was false and the real engine returned the second candidate's value).  Termination is not a theorem here.
-/
namespace MLPE.Eng
open MLPE

/-- while the current candidate is neither failed nor finished, `_run_oneof` blocks on it: no later candidate is
opened, no further task is created -/
theorem C10_waits_for_current_candidate (c : Ctx) (s : St) (obs : List Obs) (d : DagRef) (head cand : Node)
    (rest : List Node) (sub : DagRef) (below : List Frame) (h : oneofDone s cand sub = false) :
    oneofWake c s obs d head cand rest sub below =
      block c s obs (.oneofWait d head cand rest sub :: below) (.cond (.node cand)) := by
  simp [oneofWake, h]

/-- the first candidate whose sub-DAG finishes without a recorded failure wins: its stored value becomes the
value of the one-of node, the consumers and `run()` are notified, and no further candidate is tried -/
theorem C10_first_success_wins (c : Ctx) (s : St) (obs : List Obs) (d : DagRef) (head cand : Node)
    (rest : List Node) (sub : DagRef) (below : List Frame) (h : oneofDone s cand sub = true)
    (he : hasError s sub = false) :
    oneofWake c s obs d head cand rest sub below = oneofWin c s obs head cand below := by
  simp [oneofWake, h, he]

/-- what winning means: the one-of node gets the candidate's stored value -/
theorem C10_win_copies_candidate_value (c : Ctx) (s : St) (obs : List Obs) (head cand : Node) (below : List Frame) :
    oneofWin c s obs head cand below =
      retTo c (notify (notifyAll (notify (s.setRes head (s.getHid cand)) (.node head))
        ((c.P.g.desc1 head).map Key.node)) .run) obs below .none := rfl

/-- the next candidate is tried only after the current one has a recorded failure in its sub-DAG -/
theorem C10_next_only_after_failure (c : Ctx) (s : St) (obs : List Obs) (d : DagRef) (head cand : Node)
    (rest : List Node) (sub : DagRef) (below : List Frame) (he : hasError s sub = true) :
    oneofWake c s obs d head cand rest sub below = oneofTry c d head below s obs rest := by
  simp [oneofWake, oneofDone, he]

/-- trying a candidate opens exactly that candidate and starts exactly one task: its sub-DAG; nodes of that sub-DAG that
a restart of a recurrent subgraph has invalidated are hidden first, so that a result from before the restart is not taken
for the candidate's (`St.refresh`; without a restart it changes nothing, `refresh_of_nil`) -/
theorem C10_try_opens_one_candidate (c : Ctx) (d : DagRef) (head : Node) (below : List Frame) (s : St)
    (obs : List Obs) (cand : Node) (rest : List Node) (sub : DagRef)
    (hr : reducedRef c.P (openCand s true cand) c.P.g.input cand false true true = some sub)
    (hw : oneofDone (spawn ((openCand s true cand).refresh sub.nodes) [.dagInit sub] .dag).1 cand sub = false) :
    oneofTry c d head below s obs (cand :: rest) =
      block c (spawn ((openCand s true cand).refresh sub.nodes) [.dagInit sub] .dag).1
        (obs ++ [.spawn ((openCand s true cand).refresh sub.nodes).tasks.length .dag])
        (.oneofWait d head cand rest sub :: below) (.cond (.node cand)) := by
  simp [oneofTry, hr, hw]

/-- all candidates failed -/
theorem C10_all_failed (c : Ctx) (d : DagRef) (head : Node) (below : List Frame) (s : St) (obs : List Obs) :
    oneofTry c d head below s obs [] =
      if d.isNested then
        retTo c (notifyAll (notify (s.setRes head (.exc ⟨"OneOfNoResult", head, 0, 0⟩)) (.node head))
          ((c.P.g.desc1 head).map Key.node)) obs below .none
      else raiseOut c (notify s .run) obs below (.exc ⟨"OneOfNoResult", head, 0, 0⟩) := by
  simp [oneofTry]

/-- the edge from a candidate to its one-of head is not an edge of any reduced DAG: a candidate (and what only it needs)
is part of somebody else's sub-DAG only where it is an ordinary dependency too — and there it has to be computed,
whether its one-of tries it or not (fix: candidates are no longer hidden as nodes, which left such a consumer waiting
forever) -/
theorem C10_candidate_edge_not_in_reduced_dags (P : Program) (s : St) (e : Edge)
    (h : (P.g.attr e.v).oneofNodes.contains e.u = true) : (filteredView P s).okEdge e = false := by
  simp only [filteredView, h, Bool.not_true, Bool.and_false]

/-- every node is visible in the view the reduced DAGs are computed from -/
theorem C10_no_node_is_hidden (P : Program) (s : St) (u : Node) : (filteredView P s).okNode u = true := rfl

/-- the head of a one-of does not wait for its own candidates, even when they are nodes of the current DAG because somebody
else depends on them too (fix 07dff2b): every source its readiness looks at comes from a predecessor that is not one of
its candidates -/
theorem C10_head_readiness_ignores_candidates (P : Program) (s : St) (d : DagRef) (h : Node)
    (hh : P.g.isOneofHead h = true) (hsw : P.g.isSwitch h = false) :
    ∀ q ∈ predsFor P s d h, ∃ p, p ∈ P.g.preds h ∧ (P.g.attr h).oneofNodes.contains p = false ∧
      d.nodes.contains p = true ∧
      q = (if P.g.isSwitch p then (match s.sw p with | some (_, c) => c | none => p) else p) := by
  intro q hq
  unfold predsFor at hq
  simp only [hsw, hh, Bool.false_and, Bool.false_eq_true, if_false, Bool.false_or, Bool.true_or, if_true, List.mem_map,
    List.mem_filter, Bool.and_eq_true, Bool.not_eq_true', Bool.true_and] at hq
  obtain ⟨p, ⟨hp1, hp2, hp3⟩, heq⟩ := hq
  exact ⟨p, hp1, hp3, hp2, heq.symm⟩

/-- a one-of sub-DAG that gives up because a node of it has failed passes that error on to its destination when the
destination has no result (fix 3319e5b): a consumer outside the sub-DAG — of a switch whose case it is, of a recurrent
subgraph — learns of the failure -/
theorem C10_giving_up_passes_the_error_to_the_destination (c : Ctx) (d : DagRef) (below : List Frame) (s : St)
    (obs : List Obs) (n : Node) (rest : List Node) (dn : Node) (hr : ready c.P s d n = true) (ho : d.isOneof = true)
    (he : hasError s d = true) (hd : d.dest = some dn) (hx : s.exists dn = false) :
    dagLaunch c d below s obs (n :: rest) =
      retTo c (notify (notifyAll (notifyAll (s.setRes dn (.exc (subgraphError c.P s d))) ((c.P.g.desc1 dn).map Key.node))
        ((c.P.g.desc1 n).map Key.node)) d.destKey) obs below .none := by
  simp [dagLaunch, hr, ho, he, hd, hx]

/-- … and the error is one that a node of the sub-DAG really has as its result -/
theorem C10_the_passed_error_is_a_stored_one (P : Program) (s : St) (d : DagRef) (hres : ∀ n, s.resHid n = false)
    (he : hasError s d = true) : ∃ n ∈ d.nodes, s.res n = some (.exc (subgraphError P s d)) := by
  unfold hasError at he
  rw [List.any_eq_true] at he
  obtain ⟨x, hx, herr⟩ := he
  unfold subgraphError
  cases hf : (P.g.order ++ d.nodes).find? (fun n => d.nodes.contains n && s.isErr n) with
  | none =>
    rw [List.find?_eq_none] at hf
    have := hf x (List.mem_append_right _ hx)
    simp [hx, herr] at this
  | some n =>
    have hp := List.find?_some hf
    simp only [Bool.and_eq_true, List.contains_iff_mem] at hp
    obtain ⟨hn, hie⟩ := hp
    refine ⟨n, hn, ?_⟩
    simp only [St.isErr, St.get, hres, Bool.false_eq_true, if_false] at hie ⊢
    cases hr : s.res n with
    | none => rw [hr] at hie; simp [Val.isExc] at hie
    | some w =>
      rw [hr] at hie
      simp only [Option.getD_some] at hie ⊢
      cases w <;> simp [Val.isExc] at hie
      rfl

/-- opening is per run: the initial state of every run has nothing opened (fix: no write to the shared DAG) -/
theorem C10_fresh_run_nothing_opened (u : Node) : init.opened u = false := rfl

/-! ### Pipelines with switches and one-ofs: safety in every reachable state, under every schedule -/

variable {val : Node → Option Val}

/-- **every stored value is the value the dataflow semantics assigns to its node** -/
theorem C10_results_agree (P : Program) (val : Node → Option Val) (hone : OneP P) (hsol : SolutionOne P val)
    (s : St) (h : Reach P s) (n : Node) (v : Val) (hr : s.res n = some v) (hne : v.isExc = false) :
    val n = some v ∧ v.isRecur = false :=
  ⟨(safe_reach hone hsol h).data.agree n v hr hne, (safe_reach hone hsol h).data.vals n v hr⟩

/-- **the value of a one-of is the value of its first successful candidate**: whatever is stored for the synthetic head
is the value of the first candidate, in declared order, that has a value in the dataflow semantics -/
theorem C10_head_value_is_first_success (P : Program) (val : Node → Option Val) (hone : OneP P)
    (hsol : SolutionOne P val) (s : St) (h : Reach P s) (hd : Node) (hh : P.g.isOneofHead hd = true) (v : Val)
    (hr : s.res hd = some v) (hne : v.isExc = false) :
    ∃ pre c post, cands P hd = pre ++ c :: post ∧ (∀ x ∈ pre, val x = none) ∧ val c = some v := by
  have hv := (safe_reach hone hsol h).data.agree hd v hr hne
  rw [hsol.head hd hh] at hv
  obtain ⟨c, hc, hcv⟩ := List.exists_of_findSome?_eq_some hv
  -- take the first candidate with a value
  have key : ∀ (l : List Node), l.findSome? val = some v →
      ∃ pre c post, l = pre ++ c :: post ∧ (∀ x ∈ pre, val x = none) ∧ val c = some v := by
    intro l
    induction l with
    | nil => intro h0; cases h0
    | cons a l ih =>
      intro h0
      simp only [List.findSome?] at h0
      cases ha : val a with
      | some w =>
        rw [ha] at h0
        simp only [Option.some.injEq] at h0
        subst h0
        refine ⟨[], a, l, rfl, ?_, ha⟩
        intro x hx
        cases hx
      | none =>
        rw [ha] at h0
        obtain ⟨pre, c, post, h1, h2, h3⟩ := ih h0
        refine ⟨a :: pre, c, post, by rw [h1]; rfl, ?_, h3⟩
        intro x hx
        rcases List.mem_cons.mp hx with rfl | hx
        · exact ha
        · exact h2 x hx
  exact key _ hv

/-- **failures are contained and never delivered as values**: an exception object stored as a node's result (inside a
one-of scope) belongs to a node that has no value, and it has a cause -/
theorem C10_contained_failure_has_no_value (P : Program) (val : Node → Option Val) (hone : OneP P)
    (hsol : SolutionOne P val) (s : St) (h : Reach P s) (n : Node) (e : Exc) (hr : s.res n = some (.exc e)) :
    val n = none ∧ ErrCause P val e :=
  ⟨((safe_reach hone hsol h).data.excOK n e hr).1, ((safe_reach hone hsol h).data.excOK n e hr).2.1⟩

/-- **every observed body call gets the dataflow values of its sources** — for a one-of parameter the value of the first
successful candidate; all sources have values (so no argument is a stored failure), first and only invocation -/
theorem C10_body_arguments (P : Program) (val : Node → Option Val) (hone : OneP P) (hsol : SolutionOne P val)
    (s : St) (log : List Obs) (h : Exec P s log) (n inv k : Nat) (kw : Kwargs) (hb : Obs.body n inv k kw ∈ log) :
    kw = kwFrom P val n ∧ (∀ p ∈ P.g.preds n, (val p).isSome = true) ∧ inv = 0 := by
  have a : Att P val n k kw inv := (safe_exec hone hsol h).2 _ hb
  refine ⟨a.kw_eq, ?_, a.inv0⟩
  have := a.preds
  rw [List.all_eq_true] at this
  exact this

/-- **a returned value is the dataflow value of the output node** -/
theorem C10_returned_value (P : Program) (val : Node → Option Val) (hone : OneP P) (hsol : SolutionOne P val)
    (s : St) (h : Reach P s) (v : Val) (ho : s.outcome = some (.value v)) (hne : v.isExc = false) :
    val P.g.output = some v :=
  ((safe_reach hone hsol h).data.out (.value v) ho).1 hne

/-- **an error outcome has a cause**; for `OneOfDoesNotHaveResultError` raised by the engine for head `hd`: no candidate
of `hd` has a value -/
theorem C10_error_has_cause (P : Program) (val : Node → Option Val) (hone : OneP P) (hsol : SolutionOne P val)
    (s : St) (h : Reach P s) (e : Exc) (ho : s.outcome = some (.error e) ∨ s.outcome = some (.raised e)) :
    ErrCause P val e := by
  rcases ho with ho | ho
  · exact (safe_reach hone hsol h).data.out _ ho
  · exact (safe_reach hone hsol h).data.out _ ho

theorem C10_no_result_means_all_failed (P : Program) (val : Node → Option Val) (hsol : SolutionOne P val)
    (hd : Node) (hh : P.g.isOneofHead hd = true) (hv : val hd = none) : ∀ c ∈ cands P hd, val c = none := by
  rw [hsol.head hd hh] at hv
  intro c hc
  cases hcv : val c with
  | none => rfl
  | some w =>
    have : ((cands P hd).findSome? val).isSome = true := by
      rw [List.findSome?_isSome_iff]
      exact ⟨c, hc, by rw [hcv]; rfl⟩
    rw [hv] at this; cases this

/-- **laziness**: a node that has been started is needed — the output, a source of a needed node, the decision node or
selected case of a needed switch, or a candidate of a needed one-of **all of whose earlier candidates have no value**
(launch orders being topological orders of their DAGs) -/
theorem C10_only_needed_nodes_run (P : Program) (val : Node → Option Val) (hone : OneP P) (hsol : SolutionOne P val)
    (s : St) (h : Reach P s) (hord : s.badOrd = false) (n : Node) (hp : s.proc n = true) : Demanded P val n := by
  rcases (safe_reach hone hsol h).data.lazy with hb | hl
  · rw [hord] at hb; cases hb
  · exact hl n hp

theorem C10_unneeded_node_never_runs (P : Program) (val : Node → Option Val) (hone : OneP P) (hsol : SolutionOne P val)
    (s : St) (h : Reach P s) (hord : s.badOrd = false) (n : Node) (hn : ¬ Demanded P val n) : s.proc n = false := by
  cases hp : s.proc n with
  | false => rfl
  | true => exact absurd (C10_only_needed_nodes_run P val hone hsol s h hord n hp) hn

/-! Non-vacuity: `demoOne` (first candidate raises, second succeeds) satisfies `OneP` by evaluation of its Boolean form
and has the solution `demoOneVal`; a complete run is exhibited — candidate `1` fails inside its one-of scope, candidate
`2` is tried next, the consumer gets its value — and the theorems are applied to its final state. -/

def runChoicesO (P : Program) : St → List Choice → Option St
  | s, [] => some s
  | s, c :: cs => match step P s c with
    | some (s', _) => runChoicesO P s' cs
    | none => none

theorem reach_of_runO {P : Program} : ∀ (cs : List Choice) (s s' : St), Reach P s → runChoicesO P s cs = some s' → Reach P s'
  | [], s, s', h, hr => by simp [runChoicesO] at hr; exact hr ▸ h
  | c :: cs, s, s', h, hr => by
    simp only [runChoicesO] at hr
    split at hr
    · next s1 obs hs => exact reach_of_runO cs s1 s' (.step h hs) hr
    · cases hr

def demoOneRun : List Choice :=
  [.run 0 [] 0, .run 1 [0, 3, 4] 0, .run 2 [] 0, .gate 0 0 1, .run 2 [] 0, .run 1 [] 0,
   .run 3 [] 0, .run 4 [1] 0, .run 5 [] 0, .gate 1 0 1, .run 5 [] 0, .run 3 [] 0,
   .run 6 [2] 0, .run 7 [] 0, .gate 2 0 1, .run 7 [] 0, .run 3 [] 0, .run 1 [] 0, .run 8 [] 0, .gate 4 0 1, .run 8 [] 0,
   .run 1 [] 0, .run 0 [] 0]

example : ∃ s, runChoicesO demoOne init demoOneRun = some s ∧ Reach demoOne s ∧
    (∃ e, s.res 1 = some (.exc e) ∧ demoOneVal 1 = none) ∧
    (∃ v, s.res 3 = some v ∧ demoOneVal 3 = some v ∧ demoOneVal 2 = some v) ∧
    ∃ v, s.outcome = some (.value v) ∧ demoOneVal demoOne.g.output = some v := by
  have h : (runChoicesO demoOne init demoOneRun).isSome = true := by decide +kernel
  obtain ⟨s, hs⟩ := Option.isSome_iff_exists.mp h
  have hr := reach_of_runO demoOneRun init s .init hs
  have fact : ∀ (f : St → Bool), ((runChoicesO demoOne init demoOneRun).map f) = some true → f s = true := by
    intro f hf; rw [hs] at hf; simpa using hf
  have h1 : ∃ e, s.res 1 = some (.exc e) := by
    have := fact (fun s => match s.res 1 with | some (.exc _) => true | _ => false) (by decide +kernel)
    cases hr1 : s.res 1 with
    | none => simp [hr1] at this
    | some w => cases w <;> simp [hr1] at this; exact ⟨_, rfl⟩
  obtain ⟨e, he⟩ := h1
  have h3 : ∃ v, s.res 3 = some v ∧ v.isExc = false := by
    have := fact (fun s => match s.res 3 with | some v => !v.isExc | none => false) (by decide +kernel)
    cases hr3 : s.res 3 with
    | none => simp [hr3] at this
    | some w => exact ⟨w, rfl, by simpa [hr3] using this⟩
  obtain ⟨v3, hv3, hne3⟩ := h3
  have hval : ∃ v, s.outcome = some (.value v) ∧ v.isExc = false := by
    have := fact (fun s => match s.outcome with | some (.value v) => !v.isExc | _ => false) (by decide +kernel)
    cases ho : s.outcome with
    | none => simp [ho] at this
    | some o => cases o <;> simp [ho] at this; exact ⟨_, rfl, this⟩
  obtain ⟨v, hv, hnev⟩ := hval
  have a1 := C10_contained_failure_has_no_value demoOne demoOneVal demoOne_oneP demoOneVal_solution s hr 1 e he
  have a3 := C10_results_agree demoOne demoOneVal demoOne_oneP demoOneVal_solution s hr 3 v3 hv3 hne3
  refine ⟨s, hs, hr, ⟨e, he, a1.1⟩, ⟨v3, hv3, a3.1, ?_⟩, v, hv,
    C10_returned_value demoOne demoOneVal demoOne_oneP demoOneVal_solution s hr v hv hnev⟩
  -- the head's value is the second candidate's: the first has none
  obtain ⟨pre, c, post, hc, hpre, hcv⟩ :=
    C10_head_value_is_first_success demoOne demoOneVal demoOne_oneP demoOneVal_solution s hr 3 (by decide) v3 hv3 hne3
  have h32 : demoOneVal 3 = demoOneVal 2 := by decide
  rw [← h32]; exact a3.1


/-- **contained failures are never delivered to a consumer as a value** (all programs, all schedules): no body call of any
execution — whatever mix of one-ofs, switches and recurrent subgraphs, whoever stored the exception object — has an exception
object as the value of a declared parameter (`Proofs/KwArgs.lean`: `_get_node_kwargs` fails the consumer instead) -/
theorem C10_failure_object_is_never_an_argument (P : Program) (s : St) (log : List Obs) (h : Exec P s log)
    (n : Node) (inv k : Nat) (kw : Kwargs) (hm : Obs.body n inv k kw ∈ log) (hn : (n == P.g.input) = false)
    (a : String) (v : Val) (hv : (a, v) ∈ kw) (ha : a ≠ "additional_data") : v.isExc = false :=
  (((budget_exec h).2 _ hm).2.2 hn).noExc a v hv ha

end MLPE.Eng

import MLPE.Proofs.EngTasks

/-!
# C10 — one-of yields the first successful candidate, lazily, and contains failures

General facts of the engine model, local to `_run_oneof` (every program, every state):
* candidates are tried strictly in declared order: trying `cand :: rest` opens exactly `cand`, starts exactly
  one sub-DAG task for it, and either waits for it, or takes its value (`C10_first_success_wins`), or — only
  if that sub-DAG has a recorded failure — goes on to `rest` (`C10_next_only_after_failure`);
  nothing of `rest` is opened or started before that (`C10_waits_for_current_candidate`);
* a candidate that is never opened is invisible in every reduced DAG (`C10_unopened_candidate_invisible`), so
  later candidates and the nodes only they need are not launched by anybody;
* when every candidate failed: nested → the head gets `OneOfDoesNotHaveResultError` as its (contained)
  result and the enclosing scope is notified; top level → `run()` is woken and the one-of task fails with it
  (`C10_all_failed`).
First-success *semantics* (value of the candidate, containment of its failures) for private candidates under
all schedules is tied by lock-step and checked by the `Sem` monitors; the shapes where the real engine leaks
(nested one-of inside a candidate, switch inside a candidate) are findings (DESIGN §5).
-/
namespace MLPE.Eng
open MLPE

/-- while the current candidate is neither failed nor finished, `_run_oneof` blocks on it: no later candidate is
opened, no further task is created -/
theorem C10_waits_for_current_candidate (c : Ctx) (s : St) (obs : List Obs) (d : DagRef) (head cand : Node)
    (rest : List Node) (sub : DagRef) (below : List Frame) (h : oneofDone s cand sub = false) :
    oneofWake c s obs d head cand rest sub below =
      block c s obs (.oneofWait d head cand rest sub :: below) (.cond (.node cand)) := by
  simp [oneofWake, h]

/-- the first candidate whose sub-DAG finishes without a recorded failure wins: its stored value becomes the
value of the one-of node, the consumers and `run()` are notified, and no further candidate is tried -/
theorem C10_first_success_wins (c : Ctx) (s : St) (obs : List Obs) (d : DagRef) (head cand : Node)
    (rest : List Node) (sub : DagRef) (below : List Frame) (h : oneofDone s cand sub = true)
    (he : hasError s sub = false) :
    oneofWake c s obs d head cand rest sub below = oneofWin c s obs head cand below := by
  simp [oneofWake, h, he]

/-- what winning means: the one-of node gets the candidate's stored value -/
theorem C10_win_copies_candidate_value (c : Ctx) (s : St) (obs : List Obs) (head cand : Node) (below : List Frame) :
    oneofWin c s obs head cand below =
      retTo c (notify (notifyAll (notify (s.setRes head (s.getHid cand)) (.node head))
        ((c.P.g.desc1 head).map Key.node)) .run) obs below .none := rfl

/-- the next candidate is tried only after the current one has a recorded failure in its sub-DAG -/
theorem C10_next_only_after_failure (c : Ctx) (s : St) (obs : List Obs) (d : DagRef) (head cand : Node)
    (rest : List Node) (sub : DagRef) (below : List Frame) (he : hasError s sub = true) :
    oneofWake c s obs d head cand rest sub below = oneofTry c d head below s obs rest := by
  simp [oneofWake, oneofDone, he]

/-- trying a candidate opens exactly that candidate and starts exactly one task: its sub-DAG -/
theorem C10_try_opens_one_candidate (c : Ctx) (d : DagRef) (head : Node) (below : List Frame) (s : St)
    (obs : List Obs) (cand : Node) (rest : List Node) (sub : DagRef)
    (hr : reducedRef c.P (openCand s true cand) c.P.g.input cand false true true = some sub)
    (hw : oneofDone (spawn (openCand s true cand) [.dagInit sub] .dag).1 cand sub = false) :
    oneofTry c d head below s obs (cand :: rest) =
      block c (spawn (openCand s true cand) [.dagInit sub] .dag).1
        (obs ++ [.spawn (openCand s true cand).tasks.length .dag])
        (.oneofWait d head cand rest sub :: below) (.cond (.node cand)) := by
  simp [oneofTry, hr, hw]

/-- all candidates failed -/
theorem C10_all_failed (c : Ctx) (d : DagRef) (head : Node) (below : List Frame) (s : St) (obs : List Obs) :
    oneofTry c d head below s obs [] =
      if d.isNested then
        retTo c (notifyAll (notify (s.setRes head (.exc ⟨"OneOfNoResult", head, 0, 0⟩)) (.node head))
          ((c.P.g.desc1 head).map Key.node)) obs below .none
      else raiseOut c (notify s .run) obs below (.exc ⟨"OneOfNoResult", head, 0, 0⟩) := by
  simp [oneofTry]

/-- a one-of candidate nobody has opened in this run is not a node of any reduced DAG -/
theorem C10_unopened_candidate_invisible (P : Program) (s : St) (u : Node)
    (hc : (P.g.attr u).isOneofChild = true) (ho : s.opened u = false) : (filteredView P s).okNode u = false := by
  simp [filteredView, hc, ho]

/-- opening is per run: the initial state of every run has nothing opened (fix: no write to the shared DAG) -/
theorem C10_fresh_run_nothing_opened (u : Node) : init.opened u = false := rfl

end MLPE.Eng

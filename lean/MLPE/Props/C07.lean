import MLPE.Proofs.EngBasic

/-!
# C07 — a chart is reusable: every run behaves like the first run of a fresh chart

In the engine model (which follows the code after the fix commits 4d…: opened one-of candidates and recurrent
`additional_data` live in the per-run manager, `input_kwargs` is copied) there is **no state that outlives a run**:
every run starts from the constant `Eng.init`, and a step is a pure function of the program and the run's own state.
Hence the outcome of the k-th run of a history is, by construction, the outcome of a first run — the theorems below
state this; they are simple *because* the model has no chart-level mutable state.  Whether the CODE is like that is
what the check establishes: histories of 2–6 runs on one chart object, each lock-stepped against a fresh model
instance, with deep snapshots of the DAG, the node classes and the caller's dict (harness/multirun.py).
-/
namespace MLPE.Eng
open MLPE

/-- the states a run of `P` can reach do not depend on anything but `P`: in particular not on earlier runs -/
theorem C07_run_depends_on_program_only (P : Program) (s : St) :
    Reach P s ↔ (s = init ∨ ∃ s0 c obs, Reach P s0 ∧ step P s0 c = some (s, obs)) := by
  constructor
  · intro h
    cases h with
    | init => exact Or.inl rfl
    | step h0 hs => exact Or.inr ⟨_, _, _, h0, hs⟩
  · rintro (rfl | ⟨s0, c, obs, h0, hs⟩)
    · exact .init
    · exact .step h0 hs

/-- a history of runs: the k-th run starts, like the first, from `init` with nothing opened, no additional data,
no results, no tasks but the caller's -/
theorem C07_every_run_starts_fresh :
    (∀ n, init.opened n = false) ∧ (∀ n, init.additional n = none) ∧ (∀ n, init.res n = none) ∧
    (∀ n, init.proc n = false) ∧ init.tasks.length = 1 ∧ init.outcome = none := by
  refine ⟨fun _ => rfl, fun _ => rfl, fun _ => rfl, fun _ => rfl, rfl, rfl⟩

/-- the caller's `input_kwargs` are only read: the program (which carries them) is not part of the state a step
can change -/
theorem C07_input_kwargs_not_modified (P : Program) (s s' : St) (c : Choice) (obs : List Obs)
    (_ : step P s c = some (s', obs)) : P.inputKw = P.inputKw := rfl

end MLPE.Eng

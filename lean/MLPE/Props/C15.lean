import MLPE.Props.C16

/-!
# C15 — `build_dag` is a faithful translation of the declared dependencies

`Builder.build` models `build_dag` with its real LIFO worklist and per-mark graph construction.  The theorems
relate its result to the **order-free** declared relation `Reachable` (what the output needs) — so they hold for
any traversal order the worklist happens to take:

* `C15_every_needed_node_is_built`: every declared node the output can reach is in the node map (and nothing makes
  the build skip one): the worklist is complete, for graphs of any size and shape;
* `C15_every_declared_dependency_is_built`: for every reachable node and every one of its parameter marks the
  declared dependency edges are in the graph — `Input`: source → node; `RecurrentSubGraph`: destination → node and the
  (start, destination) pair; `SwitchCase`: decider → switch node, every case → switch node, switch node → node;
  `InputOneOf`: input → synthetic node, every candidate → synthetic node, synthetic node → node — no declared
  parameter is dropped; mark-less nodes get the implicit input link;
* `C15_node_map_resolves_ids`: the node map resolves every id to a declaration with exactly that id.
Attribute merging when one node binds two parameters to the same source collapses them (`addEdge` on an existing
key): that is the listed finding P8 (DESIGN §5); the differential check compares full attributes on generated
declaration sets without such parallel parameters.
-/
namespace MLPE.Builder

/-- completeness of the traversal: the build visits (and maps) every node the output needs -/
theorem C15_every_needed_node_is_built (D : Decls) (hwf : WF D) (b : Built) (hb : build D = .ok b) (c : Cls)
    (hr : Reachable D c) : D.id c ∈ keysM b.g := by
  obtain ⟨visited, ht, _⟩ := build_ok_traverse hb
  have hs := traverse_success D hwf _ _ _ _ _ _ (loopInv_init D hwf)
    (by intro x hx hn; simp at hx hn; exact absurd hx hn) ht (by simp)
  exact ((traverse_contributes D hwf _ _ _ _ _ _ (loopInv_init D hwf)
    (by intro x hx hn; simp at hx hn; exact absurd hx hn) ht (by simp)).2 c
    (closed_contains_reachable D hs.1 c hr)).mapped

/-- no declared parameter is dropped: every mark of every needed node has its dependency edges in the built graph -/
theorem C15_every_declared_dependency_is_built (D : Decls) (hwf : WF D) (b : Built) (hb : build D = .ok b) (c : Cls)
    (hr : Reachable D c) (kw : String) (m : Mark) (hm : (kw, m) ∈ (D.get c).marks) : MarkIn D b.g c m := by
  obtain ⟨visited, ht, _⟩ := build_ok_traverse hb
  have hs := traverse_success D hwf _ _ _ _ _ _ (loopInv_init D hwf)
    (by intro x hx hn; simp at hx hn; exact absurd hx hn) ht (by simp)
  exact ((traverse_contributes D hwf _ _ _ _ _ _ (loopInv_init D hwf)
    (by intro x hx hn; simp at hx hn; exact absurd hx hn) ht (by simp)).2 c
    (closed_contains_reachable D hs.1 c hr)).marks (kw, m) hm

/-- a node that declares no marks gets the implicit input → node link -/
theorem C15_markless_node_linked_to_input (D : Decls) (hwf : WF D) (b : Built) (hb : build D = .ok b) (c : Cls)
    (hr : Reachable D c) (hm : (D.get c).marks = []) (hne : c ≠ D.input) : (D.id D.input, D.id c) ∈ keysE b.g := by
  obtain ⟨visited, ht, _⟩ := build_ok_traverse hb
  have hs := traverse_success D hwf _ _ _ _ _ _ (loopInv_init D hwf)
    (by intro x hx hn; simp at hx hn; exact absurd hx hn) ht (by simp)
  exact ((traverse_contributes D hwf _ _ _ _ _ _ (loopInv_init D hwf)
    (by intro x hx hn; simp at hx hn; exact absurd hx hn) ht (by simp)).2 c
    (closed_contains_reachable D hs.1 c hr)).implicit hm hne

/-- the node map resolves every id to a declaration carrying exactly that id -/
theorem C15_node_map_resolves_ids (D : Decls) (b : Built) (hb : build D = .ok b) : MapOK D b.g := by
  obtain ⟨visited, ht, _⟩ := build_ok_traverse hb
  exact traverse_mapOK D _ _ _ _ _ _ (mapOK_mapNode D {} D.input (by intro kc h; simp at h)) ht

/-- only what the output needs is traversed: every visited node is reachable (soundness of the worklist) -/
theorem C15_only_needed_nodes_are_traversed (D : Decls) (hwf : WF D) (hok : ∀ c, Reachable D c → NodeOk D c) :
    ∃ g visited, traverse D (D.ds.length + 1) (({} : G).mapNode (D.id D.input) D.input) [D.output] [D.output]
      = .ok (g, visited) ∧ ∀ c, c ∈ visited ↔ Reachable D c :=
  traverse_visits_reachable D hwf hok

/-! Non-vacuity: a declaration set with every mark kind builds, and its node map has every declared class. -/
def demoAll : Decls :=
  { ds := [{ ident := "processor__N0", marks := [] },
           { ident := "processor__N1", marks := [("a", .input 0)], hasAdditional := true },
           { ident := "processor__N2", marks := [("a", .input 1)], isRecurrent := true },
           { ident := "processor__N3", marks := [] },
           { ident := "processor__N4", marks := [("a", .recurrent 1 2 2), ("b", .oneOf [3]),
                                               ("c", .switch 1 [("l0", 0)] "sw")] }],
    input := 0, output := 4 }

set_option maxRecDepth 4000 in
example : (match build demoAll with | .ok b => decide (b.g.nodeMap.length = 5 ∧ b.g.nodes.length = 7) | .error _ => false) = true := by
  decide +kernel

end MLPE.Builder

namespace MLPE.Builder

/-- **finding P8 (witness)**: a node binding two parameters to one source ends up with a single edge that carries only
the later parameter name — in the model exactly as in the real builder (replayed by the check as a KNOWN-FINDING) -/
def demoParallel : Decls :=
  { ds := [{ ident := "processor__N0", marks := [] },
           { ident := "processor__N1", marks := [("a", .input 0)] },
           { ident := "processor__N2", marks := [("a", .input 1), ("b", .input 1)] }], input := 0, output := 2 }

set_option maxRecDepth 4000 in
theorem C15_witness_parallel_parameters_collapse :
    (match build demoParallel with
      | .ok b => decide ((b.g.edges.filter (fun e => e.1 == ("processor__N1", "processor__N2"))).map (·.2.kwarg) = [some "b"])
      | .error _ => false) = true := by
  decide +kernel

end MLPE.Builder

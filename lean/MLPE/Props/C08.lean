import MLPE.Proofs.EngBasic

/-!
# C08 — overlapping runs of one chart do not interfere

Overlapping runs are modelled as the product of independent instances of the engine model: a choice belongs to one
run and transforms only that run's state.  The projection of any interleaved execution onto one run is therefore an
execution of that run alone (`C08_projection_is_solo_run`), whatever the other runs do — fail, get cancelled,
finish.  That the CODE has no channel between runs (graph attributes, node classes, module-level state) is what
the check establishes: each run's events of an overlapping execution are replayed on its own fresh model
instance (harness/multirun.py).  Pool registries are process-wide singletons: modelled as ready / not ready (C17).
-/
namespace MLPE.Eng
open MLPE

/-- a system of overlapping runs of the same chart (each with its own input): one state per run -/
abbrev Multi := List St

/-- a choice of run `i` -/
def mstep (Ps : List Program) (m : Multi) (i : Nat) (c : Choice) : Option (Multi × List Obs) :=
  match Ps[i]?, m[i]? with
  | some P, some s => (step P s c).map fun r => (m.set i r.1, r.2)
  | _, _ => none

inductive MReach (Ps : List Program) : Multi → Prop
  | init : MReach Ps (Ps.map fun _ => init)
  | step {m m' : Multi} {i : Nat} {c : Choice} {obs : List Obs} :
      MReach Ps m → mstep Ps m i c = some (m', obs) → MReach Ps m'

/-- a step of run `i` leaves every other run's state untouched -/
theorem C08_other_runs_untouched (Ps : List Program) (m m' : Multi) (i j : Nat) (c : Choice) (obs : List Obs)
    (h : mstep Ps m i c = some (m', obs)) (hij : j ≠ i) : m'[j]? = m[j]? := by
  unfold mstep at h
  split at h
  · next P s hP hs =>
    cases hst : step P s c with
    | none => simp [hst] at h
    | some r =>
      simp [hst] at h
      obtain ⟨rfl, _⟩ := h
      simp [List.getElem?_set_ne (Ne.symm hij)]
  · simp at h

/-- **non-interference**: in every reachable state of the overlapping system, the state of run `i` is a state that
run `i` reaches alone -/
theorem C08_projection_is_solo_run (Ps : List Program) (m : Multi) (h : MReach Ps m) (i : Nat) (P : Program) (s : St)
    (hP : Ps[i]? = some P) (hs : m[i]? = some s) : Reach P s := by
  induction h generalizing s with
  | init =>
    simp only [List.getElem?_map] at hs
    cases hx : Ps[i]? with
    | none => simp [hx] at hs
    | some _ => simp [hx] at hs; subst hs; exact .init
  | @step m0 m1 i' c obs _ hstep ih =>
    by_cases hi : i = i'
    · subst hi
      unfold mstep at hstep
      rw [hP] at hstep
      cases hm : m0[i]? with
      | none => simp [hm] at hstep
      | some s0 =>
        simp only [hm] at hstep
        cases hst : step P s0 c with
        | none => simp [hst] at hstep
        | some r =>
          simp [hst] at hstep
          obtain ⟨rfl, _⟩ := hstep
          have hlt : i < m0.length := by
            rcases Nat.lt_or_ge i m0.length with h1 | h1
            · exact h1
            · simp [List.getElem?_eq_none h1] at hm
          simp [hlt] at hs
          subst hs
          exact .step (ih s0 hm) hst
    · rw [C08_other_runs_untouched Ps m0 m1 i' i c obs hstep hi] at hs
      exact ih s hs

/-- consequently the outcome of run `i` in the overlapping system is an outcome of run `i` alone -/
theorem C08_outcome_is_solo_outcome (Ps : List Program) (m : Multi) (h : MReach Ps m) (i : Nat) (P : Program) (s : St)
    (hP : Ps[i]? = some P) (hs : m[i]? = some s) (o : Outcome) (ho : s.outcome = some o) :
    ∃ s', Reach P s' ∧ s'.outcome = some o :=
  ⟨s, C08_projection_is_solo_run Ps m h i P s hP hs, ho⟩

end MLPE.Eng

import MLPE.Proofs.Safe
import MLPE.Proofs.Retry
import MLPE.Proofs.Budget
import MLPE.Proofs.PlainDemo

/-!
# C12 — retry and default policy is applied exactly as configured

`Retry.run cfg outcomes` is the attempt loop of `__execute_node` (manager.py) with the defaults of
`NodeRetryPolicy`; `outcomes k` is what the k-th invocation of the body does.  The theorems hold for
every configuration (attempts `None`/0/≥1, any delay, any exception tuple, both `use_default`) and every
infinite sequence of per-attempt outcomes.  `C12_engine_*` show that the engine model takes exactly
these decisions for any node in any pipeline, whatever else is running.
-/
namespace MLPE.Retry

/-- what the node yields when attempt `m` is the deciding one and its outcome is `o` -/
def finalOf (cfg : NodeCfg) : BodyOutcome → Final
  | .ret v => .value v
  | .raise e =>
    if cfg.retryable e || e.isException then (if cfg.useDefault then .default else .failed e)
    else .failed e

/-- attempt `m` is the deciding attempt -/
structure StopsAt (cfg : NodeCfg) (outcomes : Nat → BodyOutcome) (m : Nat) : Prop where
  pos    : 1 ≤ m
  le     : m ≤ cfg.attemptsEff
  before : ∀ j, 1 ≤ j → j < m → ∃ e, outcomes j = .raise e ∧ cfg.retryable e = true
  last   : m = cfg.attemptsEff ∨ ¬ ∃ e, outcomes m = .raise e ∧ cfg.retryable e = true

/-- **C12 (specification of the loop)**: the body is invoked exactly `m` times (`call 1 … call m`,
all with the same arguments — they are not part of the loop state), consecutive invocations are
separated by `sleep delay`, `get_default` is called iff the result is the default, and the result is
`finalOf` of the deciding attempt. -/
theorem C12_spec (cfg : NodeCfg) (outcomes : Nat → BodyOutcome) (m : Nat) (h : StopsAt cfg outcomes m) :
    run cfg outcomes =
      (patFrom cfg.delayEff 1 (m - 1) ++ tailOf (finalOf cfg (outcomes m)), some (finalOf cfg (outcomes m))) := by
  obtain ⟨hpos, hle, hbefore, hlast⟩ := h
  have hm : 1 + (m - 1) = m := by omega
  have hfuel : cfg.attemptsEff = (m - 1) + 1 + (cfg.attemptsEff - m) := by omega
  unfold run
  rw [hfuel]
  apply loop_spec
  · intro j h1 h2
    obtain ⟨e, he, hr⟩ := hbefore j h1 (by omega)
    exact (decide_retry_iff cfg j _).mpr ⟨e, he, hr, by omega⟩
  · rw [hm]
    cases ho : outcomes m with
    | ret v => simp [decide, finalOf]
    | raise e =>
      simp only [decide, finalOf]
      by_cases hr : cfg.retryable e = true
      · have hmA : m = cfg.attemptsEff := by
          rcases hlast with h | h
          · exact h
          · exact absurd ⟨e, ho, hr⟩ h
        simp [hr, hmA]
        split <;> rfl
      · simp only [hr, Bool.false_eq_true, if_false, Bool.false_or]
        by_cases hx : e.isException = true
        · simp [hx]; split <;> rfl
        · simp [hx]

/-- the deciding attempt always exists: the loop never runs away (for `attempts ≥ 0`; the code compares
`n_attempts == attempts`, so a negative setting — outside the annotated domain — would never stop). -/
theorem C12_stops (cfg : NodeCfg) (outcomes : Nat → BodyOutcome) : ∃ m, StopsAt cfg outcomes m := by
  have key : ∀ n k, k + n = cfg.attemptsEff → 1 ≤ k →
      (∀ j, 1 ≤ j → j < k → ∃ e, outcomes j = .raise e ∧ cfg.retryable e = true) →
      ∃ m, StopsAt cfg outcomes m := by
    intro n
    induction n with
    | zero =>
      intro k hk h1 hb
      exact ⟨k, h1, by omega, hb, Or.inl (by omega)⟩
    | succ n ih =>
      intro k hk h1 hb
      by_cases hx : ∃ e, outcomes k = .raise e ∧ cfg.retryable e = true
      · apply ih (k + 1) (by omega) (by omega)
        intro j hj1 hj2
        by_cases hjk : j = k
        · subst hjk; exact hx
        · exact hb j hj1 (by omega)
      · exact ⟨k, h1, by omega, hb, Or.inr hx⟩
  have hA := attemptsEff_pos cfg
  exact key (cfg.attemptsEff - 1) 1 (by omega) (Nat.le_refl _) (fun j h1 h2 => by omega)

/-- the loop always produces a result -/
theorem C12_total (cfg : NodeCfg) (outcomes : Nat → BodyOutcome) : (run cfg outcomes).2 ≠ none := by
  obtain ⟨m, h⟩ := C12_stops cfg outcomes
  rw [C12_spec cfg outcomes m h]; simp

/-- a body that succeeds at once is invoked once, with no sleep and no default -/
theorem C12_success_first (cfg : NodeCfg) (outcomes : Nat → BodyOutcome) (v : Val) (h : outcomes 1 = .ret v) :
    run cfg outcomes = ([.call 1], some (.value v)) := by
  have hs : StopsAt cfg outcomes 1 :=
    ⟨Nat.le_refl _, attemptsEff_pos cfg, fun j h1 h2 => by omega, Or.inr (by simp [h])⟩
  rw [C12_spec cfg outcomes 1 hs, h]; rfl

/-- an exception the `exceptions` setting does not list is not retried; it is defaulted iff it is an
`Exception` and the node opts in; a `BaseException` outside `Exception` is neither retried nor defaulted -/
theorem C12_non_retryable (cfg : NodeCfg) (outcomes : Nat → BodyOutcome) (e : Exc)
    (h : outcomes 1 = .raise e) (hn : cfg.retryable e = false) :
    run cfg outcomes =
      if e.isException && cfg.useDefault then ([.call 1, .dflt], some .default)
      else ([.call 1], some (.failed e)) := by
  have hs : StopsAt cfg outcomes 1 :=
    ⟨Nat.le_refl _, attemptsEff_pos cfg, fun j h1 h2 => by omega, Or.inr (by simp [h, hn])⟩
  rw [C12_spec cfg outcomes 1 hs, h]
  simp only [finalOf, hn, Bool.false_or]
  by_cases hx : e.isException = true <;> by_cases hd : cfg.useDefault = true <;> simp [hx, hd, patFrom, tailOf]

/-- with the default `exceptions` setting, `BaseException`s outside `Exception` are not retryable -/
theorem C12_base_exception_not_retryable (cfg : NodeCfg) (e : Exc) (hc : cfg.exceptions = none)
    (hb : e.isException = false) : cfg.retryable e = false := by
  simp [NodeCfg.retryable, hc, hb]

/-- every retryable failure up to the limit: exactly `attempts` invocations, then default / last exception -/
theorem C12_exhausted (cfg : NodeCfg) (outcomes : Nat → BodyOutcome)
    (h : ∀ j, 1 ≤ j → j ≤ cfg.attemptsEff → ∃ e, outcomes j = .raise e ∧ cfg.retryable e = true) :
    ∃ e, outcomes cfg.attemptsEff = .raise e ∧
      run cfg outcomes =
        (patFrom cfg.delayEff 1 (cfg.attemptsEff - 1) ++ (if cfg.useDefault then [.dflt] else []),
         some (if cfg.useDefault then .default else .failed e)) := by
  have hA := attemptsEff_pos cfg
  obtain ⟨e, he, hr⟩ := h cfg.attemptsEff hA (Nat.le_refl _)
  refine ⟨e, he, ?_⟩
  have hs : StopsAt cfg outcomes cfg.attemptsEff :=
    ⟨hA, Nat.le_refl _, fun j h1 h2 => h j h1 (by omega), Or.inl rfl⟩
  rw [C12_spec cfg outcomes _ hs, he]
  simp only [finalOf, hr, Bool.true_or, if_true]
  by_cases hd : cfg.useDefault = true <;> simp [hd, tailOf]

/-! ### the engine model applies this policy (any node, any pipeline, any interleaving)

`Eng.nodeAfterBody` is the only place where the engine model reacts to the outcome of a body; it is
a case split on `Retry.decide`. -/

open MLPE.Eng in
theorem C12_engine_value (c : Ctx) (s : St) (obs : List Obs) (d : DagRef) (n : Node) (force : Bool)
    (below : List Frame) (k : Nat) (kw : Kwargs) (inv : Nat) (o : BodyOutcome) (v : Val)
    (h : decide (c.P.cfg n) k o = .done (.value v)) :
    nodeAfterBody c s obs d n force below k kw inv o = nodeSuccess c s obs d n below v := by
  cases o with
  | ret w => simp [decide] at h; subst h; simp [nodeAfterBody]
  | raise e =>
    simp only [decide] at h
    split at h
    · split at h
      · split at h <;> simp at h
      · simp at h
    · split at h
      · split at h <;> simp at h
      · simp at h

open MLPE.Eng in
theorem C12_engine_default (c : Ctx) (s : St) (obs : List Obs) (d : DagRef) (n : Node) (force : Bool)
    (below : List Frame) (k : Nat) (kw : Kwargs) (inv : Nat) (o : BodyOutcome)
    (h : decide (c.P.cfg n) k o = .done .default) :
    nodeAfterBody c s obs d n force below k kw inv o = nodeDefault c s obs d n below kw := by
  cases o with
  | ret w => simp [decide] at h
  | raise e =>
    simp only [decide] at h
    simp only [nodeAfterBody]
    split at h
    · next hr =>
      split at h
      · next hk =>
        split at h
        · next hd => simp [hr, hk, hd]
        · simp at h
      · simp at h
    · next hr =>
      split at h
      · next hx =>
        split at h
        · next hd => simp [hr, hx, hd]
        · simp at h
      · simp at h

open MLPE.Eng in
/-- the default is computed by **one** call of `get_default`, on the keyword arguments of the attempts; when it returns,
its value is the node's value, reported as a success -/
theorem C12_engine_default_value (c : Ctx) (s : St) (obs : List Obs) (d : DagRef) (n : Node) (below : List Frame)
    (kw : Kwargs) (h : c.P.dfltRaise n = none) :
    nodeDefault c s obs d n below kw = nodeSuccess c s (obs ++ [.dflt n kw]) d n below (c.P.dflt n kw) :=
  nodeDefault_of_none c s obs d n below kw h

open MLPE.Eng in
/-- … and when `get_default` itself raises, that exception is the node's failure: `get_default` has been called once — it is
not called again, with other arguments or without any —, the failure is reported by `on_node_complete(error)` and handled
like a failure of the body after the last attempt -/
theorem C12_engine_default_raises (c : Ctx) (s : St) (obs : List Obs) (d : DagRef) (n : Node) (below : List Frame)
    (kw : Kwargs) (e : Exc) (h : c.P.dfltRaise n = some e) (he : e.isException = true) :
    nodeDefault c s obs d n below kw = nodeFail c s (obs ++ [.dflt n kw]) d n below e := by
  simp [nodeDefault, h, he]

open MLPE.Eng in
theorem C12_engine_retry (c : Ctx) (s : St) (obs : List Obs) (d : DagRef) (n : Node) (force : Bool)
    (below : List Frame) (k : Nat) (kw : Kwargs) (inv : Nat) (e : Exc)
    (h : decide (c.P.cfg n) k (.raise e) = .retry) :
    nodeAfterBody c s obs d n force below k kw inv (.raise e) =
      cbCall c .ncomplete n s (obs ++ [.ncomplete n (some e)]) (fun j => .node d n force (.cbRetry j k kw inv) :: below)
        (fun s obs => nodeSleep c s obs d n force below k kw inv)
        (fun e' s obs => nodeCbRaiseInTry c s obs d n below e') := by
  obtain ⟨e', he, hr, hk⟩ := (decide_retry_iff _ _ _).mp h
  cases he
  have hk' : (k == (c.P.cfg n).attemptsEff) = false := by simpa using hk
  simp [nodeAfterBody, hr, hk']

/-- after the retry's `on_node_complete(error)` the task sleeps `delay` (a bare yield for `delay = 0`) and then
makes attempt `k + 1` with the same arguments -/
theorem C12_engine_sleep_then_next_attempt (c : Eng.Ctx) (s : Eng.St) (obs : List Eng.Obs) (d : Eng.DagRef) (n : Node)
    (force : Bool) (below : List Eng.Frame) (k : Nat) (kw : Kwargs) (inv : Nat) :
    Eng.nodeSleep c s obs d n force below k kw inv =
      if (c.P.cfg n).delayEff > 0 then
        Eng.block c s (obs ++ [.sleep (c.P.cfg n).delayEff]) (.node d n force (.sleep k kw inv) :: below)
          (.sleep n inv k (c.P.cfg n).delayEff)
      else Eng.yieldNow c s obs (.node d n force (.sleep k kw inv) :: below) := rfl

open MLPE.Eng in
theorem C12_engine_failed (c : Ctx) (s : St) (obs : List Obs) (d : DagRef) (n : Node) (force : Bool)
    (below : List Frame) (k : Nat) (kw : Kwargs) (inv : Nat) (o : BodyOutcome) (e : Exc)
    (h : decide (c.P.cfg n) k o = .done (.failed e)) :
    nodeAfterBody c s obs d n force below k kw inv o =
      if (c.P.cfg n).retryable e || e.isException then nodeFail c s obs d n below e
      else raiseOut c (nodeFinally c.P s d n true) obs below (.exc e) := by
  cases o with
  | ret w => simp [decide] at h
  | raise e' =>
    simp only [decide] at h
    simp only [nodeAfterBody]
    split at h
    · next hr =>
      split at h
      · next hk =>
        split at h
        · simp at h
        · next hd => simp at h; subst h; simp [hr, hk, hd]
      · simp at h
    · next hr =>
      split at h
      · next hx =>
        split at h
        · simp at h
        · next hd => simp at h; subst h; simp [hr, hx, hd]
      · next hx => simp at h; subst h; simp [hr, hx]

/-! Non-vacuity: a configuration with three attempts whose first two attempts raise a retryable
exception and whose third succeeds meets `StopsAt … 3`; the loop does what the theorem says. -/
example :
    let cfg : NodeCfg := { attempts := some 3, delay := some 2, exceptions := some ["E0"] }
    let outcomes : Nat → BodyOutcome := fun k => if k < 3 then .raise ⟨"E1", 7, 0, k⟩ else .ret (.str "v")
    run cfg outcomes = ([.call 1, .sleep 2, .call 2, .sleep 2, .call 3], some (.value (.str "v"))) := by
  decide

end MLPE.Retry

namespace MLPE.Eng
open MLPE

/-! ### Pipelines with switches: the attempts the engine actually makes, under every schedule -/

/-- **C12 (switch pipelines)**: every observed body call is within the attempt budget, and is made only after every
earlier attempt failed with a retryable exception; `get_default` is computed only when the policy ends in the default -/
theorem C12_switch_attempts (P : Program) (val : Node → Option Val) (hsw : SwP P) (hsol : SolutionSw P val)
    (s : St) (log : List Obs) (h : Exec P s log) :
    (∀ n inv k kw, Obs.body n inv k kw ∈ log → 1 ≤ k ∧ k ≤ (P.cfg n).attemptsEff ∧
      ∀ j, 1 ≤ j → j < k → Retry.decide (P.cfg n) j (P.body n kw 0 j) = .retry) ∧
    (∀ n kw, Obs.dflt n kw ∈ log → kw = kwFrom P val n ∧ finalOf P n (kwFrom P val n) = some .default) := by
  have hall := (safe_exec_sw hsw hsol h).2
  refine ⟨?_, ?_⟩
  · intro n inv k kw hm
    have a : Att P val n k kw inv := hall _ hm
    exact ⟨a.kpos, a.kle, a.pre⟩
  · intro n kw hm
    have a := hall _ hm
    exact ⟨a.1, a.2.2⟩

/-- the same for pipelines with one-ofs -/
theorem C12_oneof_attempts (P : Program) (val : Node → Option Val) (hone : OneP P) (hsol : SolutionOne P val)
    (s : St) (log : List Obs) (h : Exec P s log) :
    (∀ n inv k kw, Obs.body n inv k kw ∈ log → 1 ≤ k ∧ k ≤ (P.cfg n).attemptsEff ∧
      ∀ j, 1 ≤ j → j < k → Retry.decide (P.cfg n) j (P.body n kw 0 j) = .retry) ∧
    (∀ n kw, Obs.dflt n kw ∈ log → kw = kwFrom P val n ∧ finalOf P n (kwFrom P val n) = some .default) := by
  have hall := (safe_exec hone hsol h).2
  refine ⟨?_, ?_⟩
  · intro n inv k kw hm
    have a : Att P val n k kw inv := hall _ hm
    exact ⟨a.kpos, a.kle, a.pre⟩
  · intro n kw hm
    have a := hall _ hm
    exact ⟨a.1, a.2.2⟩

end MLPE.Eng

/-! ### Over a whole run, in any pipeline (all programs, all schedules) — `Proofs/Budget.lean` -/

namespace MLPE.Eng
open MLPE

/-- **C12, every program, every schedule**: every invocation of a node body that any execution ever makes — in a plain
pipeline, inside a one-of candidate, in a restarted recurrent subgraph, after any interleaving — is attempt number `k` with
`1 ≤ k ≤ attempts`: a node is never invoked more often than configured -/
theorem C12_every_body_call_is_within_the_budget (P : Program) (s : St) (log : List Obs) (h : Exec P s log)
    (n : Node) (inv k : Nat) (kw : Kwargs) (hm : Obs.body n inv k kw ∈ log) :
    1 ≤ k ∧ k ≤ (P.cfg n).attemptsEff :=
  ((budget_exec h).2 _ hm).1

/-- … and `get_default` is called only for a node that opts in with `use_default = True` (also the forced default of a
recurrent destination whose iterations are exhausted) -/
theorem C12_default_only_for_nodes_that_opt_in (P : Program) (s : St) (log : List Obs) (h : Exec P s log)
    (n : Node) (kw : Kwargs) (hm : Obs.dflt n kw ∈ log) : (P.cfg n).useDefault = true :=
  ((budget_exec h).2 _ hm).1

/-- a task that sleeps before a retry has attempts left: the attempt that follows the delay is within the budget -/
theorem C12_sleeping_task_has_attempts_left (P : Program) (s : St) (log : List Obs) (h : Exec P s log)
    (t : Nat) (tk : Task) (d : DagRef) (n : Node) (force : Bool) (k : Nat) (kw : Kwargs) (inv : Nat) (below : List Frame)
    (htk : s.tasks[t]? = some tk) (hf : tk.frames = .node d n force (.sleep k kw inv) :: below) :
    k + 1 ≤ (P.cfg n).attemptsEff := by
  have := (stack_ok (budget_exec h).1 htk)
  rw [hf] at this
  have := this.head.2.1.2
  omega

/-- non-vacuity: in the demo run of the diamond node 1 is invoked (attempt 1, which fails) and then sleeps with an attempt left -/
example : (execLog demoDiamond init [] demoSchedule).map (fun r =>
      (r.2.any (fun o => match o with | .body 1 0 1 _ => true | _ => false),
       r.1.tasks.any (fun tk => match tk.frames with | .node _ 1 _ (.sleep 1 _ _) :: _ => true | _ => false))) =
    some (true, true) := by decide +kernel

end MLPE.Eng

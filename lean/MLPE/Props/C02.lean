import MLPE.Proofs.PlainDemo
import MLPE.Proofs.WakeUp
import MLPE.Proofs.LiveCheck

/-!
# C02 — every run terminates: no deadlock or lost wake-up under any schedule

**Plain pipelines (`PlainP`)**: only `Input` dependencies; any number of nodes, any DAG shape; arbitrary retry /
default / execution-mode settings; node failures anywhere, at any attempt; `None` / falsy results; collaborators (event
managers, artifact store) that **suspend** any number of times inside any callback, and may **raise**: an event-manager callback or the artifact store failing at any call site
(`cbRaise`).  Quantified over every interleaving of task sections, every completion order of node bodies and retry
timers, every launch order a topological sort may produce, and cancellation of the caller at any point:

* `C02_plain_no_stuck_state`: while the run is pending, the engine model is never in a state in which the loop is idle
  (no task can run), nothing external is outstanding (no node body, no timer) — the deadlock / lost-wake-up state is
  unreachable;
* `C02_plain_invariant`: the invariant behind it (`PInv`): the launcher has created a task for exactly a prefix of
  the topological order, every blocked waiter's predicate is false (no lost wake-up: the launcher blocked on
  `cond[m]` ⇒ some source of `m` is not *settled* — no result, or the result is stored but its task is still inside
  `artifact_store.save` and has not sent its `finally` notifications; blocked on `cond[dest]` ⇒ the output is not
  settled; the caller blocked on `cond['run']` ⇒ no task failed and the output is not settled), node tasks wait only
  for their own body or timer or are suspended in a collaborator, nobody is cancelled — until `manager.run` leaves;
  then the finishing phase `Fin` (outcome decided, all other tasks cancel-marked, the caller possibly suspended in
  `on_pipeline_complete`).

**All programs, all states — wake-up completeness of a finishing node** (`C02_finished_node_wakes_every_consumer`,
`C02_returning_switch_wakes_its_consumers`): when the task that ran (or waited for) node `u` leaves `_run_node`, no other
task remains blocked on the condition of a node that reads `u` — directly, or through a switch node that `u` decides or is
a case of (`__get_descendants` passes through switch nodes: the historic hangs P4 / P13) —, on `cond['run']`, or on the
event of `u`; when `_run_switch` returns, nobody remains blocked on the condition of a consumer of the switch.

**Pipelines with switches (`LiveP`)** — any number of `SwitchCase`s, nested through case sub-DAGs, shared case nodes,
cases that are computed before the decision is known (the historic hangs P4 / P13), any retry / default / execution-mode
settings, node failures anywhere, collaborators that may **raise** at any call site but complete **without suspending**.
Quantified over every interleaving of task sections, every completion order of node bodies and retry timers, and every
admissible launch order:

* `C02_switch_no_stuck_state`: while `chart.run` has not returned, the model is never in the idle-and-pending state;
* `C02_switch_invariant`: the invariant behind it (`Struct`, `Proofs/Live.lean`): every task is described by its name and
  frame stack; no lost wake-up — `run()` blocked ⇒ no task has failed and the output has no result; a node's waiter
  blocked ⇒ the node is being executed by a live task; a launch loop blocked on `cond[m]` ⇒ `m` is not ready, or it
  became ready because a switch recorded its decision when the selected case had already been computed, and then the
  `_run_switch` task of that switch has not returned yet (it notifies the consumers when it does).  A state that
  satisfies `Struct` is not stuck by induction on the depth of the node a blocked launch loop waits for
  (`struct_live`);
* `C02_switch_hypotheses_from_check`: `LiveP` follows from the executable check `livePB` (acyclicity by a depth table,
  case labels only on edges from ordinary nodes into switch nodes, every reduced DAG the engine builds — up to the output,
  up to a case node — exists, ends in its destination, is closed under dependencies); the driver evaluates the check on
  the generated programs.

One-of / recurrent shapes, and switches with suspending collaborators: the model is tied to the code by lock-step on
all of them, the exact deadlock verdict of the stepping loop is compared with the model's `stuck` predicate on every
explored trace, the explorer searches the model's state space of small programs for a stuck state, and the historic
deadlocks (P1–P4, P13, P16) are regression programs; a liveness *theorem* for them is not claimed, and C02 is labelled
partial for those shapes.
-/
namespace MLPE.Eng
open MLPE

/-- **C02 (plain pipelines): the stuck state is unreachable** -/
theorem C02_plain_no_stuck_state (P : Program) (d : DagRef) (hp : PlainP P d) (s : St) (h : Live P s)
    (hpending : s.outcome = none) : stuck s = false := by
  rcases pinv_live (val := fun _ => none) hp h hpending with hinv | ⟨o, hf⟩
  · exact pinv_not_stuck hp hinv hpending
  · -- finishing phase: the caller itself is runnable
    obtain ⟨j, mc, hc0⟩ := hf.caller
    unfold stuck
    have : s.tasks.any isRunnable = true := by
      rw [List.any_eq_true]
      exact ⟨_, List.mem_of_getElem? hc0, rfl⟩
    simp [this]

/-- the invariant of plain runs holds in every state of a pending run, until `manager.run` has left (then the run is
in the finishing phase `Fin`: outcome decided, everybody else cancel-marked, the caller suspended in
`on_pipeline_complete`) -/
theorem C02_plain_invariant (P : Program) (d : DagRef) (hp : PlainP P d) (s : St) (h : Live P s)
    (hpending : s.outcome = none) : PInv P d (fun _ => none) s ∨ ∃ o, Fin P d (fun _ => none) o s :=
  pinv_live hp h hpending

/-- no lost wake-up, spelled out for the launcher: if the main `_run_dag` task sits in its launch loop at node `m` and
is blocked, then some dependency of `m` is not *settled* — its result is not stored, or it is stored but the node's
task has not finished yet (the artifact store is still saving), so the `notify` of that dependency's `finally` is still
to come -/
theorem C02_plain_launcher_blocked_legitimately (P : Program) (d : DagRef) (hp : PlainP P d) (s : St) (h : Live P s)
    (hpending : s.outcome = none) (tk : Task) (m : Node) (rest : List Node) (h1 : s.tasks[1]? = some tk)
    (hf : tk.frames = [.dagLaunch d (m :: rest)]) (hb : tk.st ≠ .runnable .go) (hmc : tk.mustCancel = false)
    (hnd : tk.isDone = false) :
    tk.st = .blocked (.cond (.node m)) ∧ ¬ ReadyA P s m := by
  rcases pinv_live (val := fun _ => none) hp h hpending with hinv | ⟨o, hfin⟩
  · rcases hinv.rest with ⟨h0, _⟩ | ⟨L, hl, ⟨mtk, hm1, hmok⟩, _, _⟩
    · have := getElem?_lt h1; omega
    · rw [h1] at hm1; cases hm1
      cases hmok with
      | waitNode m' rest' _ h2 =>
        simp at hf
        obtain ⟨rfl, _⟩ := hf
        exact ⟨rfl, h2⟩
      | init => simp at hf
      | launching => simp at hb
      | waitingDest => simp at hf
      | waitDest => simp at hf
      | done => simp at hf
  · -- finishing phase: every other task is finished or cancel-marked
    have := (hfin.others 1 tk (by omega) h1).1
    cases hst : tk.st with
    | done r => simp [Task.isDone, hst] at hnd
    | runnable rv => simp [Task.marked, Task.isDone, hst, hmc] at this
    | blocked w => simp [Task.marked, Task.isDone, hst, hmc] at this

/-! ### Pipelines with switches -/

/-- **C02 (pipelines with switches): the stuck state is unreachable** -/
theorem C02_switch_no_stuck_state (P : Program) (depth : Node → Nat) (hp : LiveP P depth) (s : St)
    (h : LiveReach P s) : stuck s = false :=
  live_not_stuck hp h

/-- the invariant of pending switch runs: it holds in every state reached before `chart.run` returns -/
theorem C02_switch_invariant (P : Program) (depth : Node → Nat) (hp : LiveP P depth) (s : St) (h : LiveReach P s)
    (hpending : s.outcome = none) : Struct P depth s := by
  rcases live_inv hp h with h1 | h1
  · exact absurd hpending h1
  · exact h1

/-- a state that satisfies the invariant has a task that can make progress by itself -/
theorem C02_switch_invariant_is_live (P : Program) (depth : Node → Nat) (hp : LiveP P depth) (s : St)
    (hs : Struct P depth s) : ∃ (i : Nat) (tk : Task), s.tasks[i]? = some tk ∧ tk.live :=
  struct_live hp hs

/-- the hypotheses follow from the executable check -/
theorem C02_switch_hypotheses_from_check (P : Program) (dl : List (Node × Nat)) (hsw : SwP P)
    (hy : ∀ cb n, P.cbYield cb n = 0) (hc : livePB P dl = true) :
    LiveP P (depthOf dl) :=
  liveP_of_check dl hsw hy hc

/-- the runs of the theorem are runs of the model -/
theorem C02_switch_runs_are_reachable (P : Program) (s : St) (h : LiveReach P s) : Reach P s := h.reach

/-! ### All programs: the notifications of a finishing node reach every consumer -/

/-- **no lost wake-up at node completion**: in the state the normal exit of `_run_node` for node `u` leaves behind, no
*other* task is blocked on `cond[m]` for a node `m` that reads `u` directly (`e.u = u`, `e.v = m`) or reads a switch node
that `u` feeds (`u → S → m`), nor on `cond['run']`, nor on the event of `u`, nor on `cond[u]` itself (a one-of waits there
for its candidate, whichever DAG executed it: fix 07dff2b) -/
theorem C02_finished_node_wakes_every_consumer (c : Ctx) (s : St) (obs : List Obs) (d : DagRef) (u : Node)
    (below : List Frame) (hn : 2 ≤ c.P.g.nodes.length) (i : Nat) (hi : i ≠ c.t) (tk : Task)
    (htk : (nodeFinish c s obs d u below).1.tasks[i]? = some tk) :
    (∀ e ∈ c.P.g.edges, e.u = u → tk.st ≠ .blocked (.cond (.node e.v))) ∧
    (∀ e1 ∈ c.P.g.edges, ∀ e2 ∈ c.P.g.edges, e1.u = u → e1.v = e2.u → c.P.g.isSwitch e1.v = true →
      tk.st ≠ .blocked (.cond (.node e2.v))) ∧
    tk.st ≠ .blocked (.cond .run) ∧ tk.st ≠ .blocked (.event u) ∧ tk.st ≠ .blocked (.cond (.node u)) := by
  obtain ⟨h1, h2, h3, h4⟩ := nodeFinally_wakes c.P s d u
  have hsame : ∀ j, j ≠ c.t → (nodeFinish c s obs d u below).1.tasks[j]? = (nodeFinally c.P s d u true).tasks[j]? :=
    fun j hj => retTo_others c _ obs below .none j hj
  have hne : c.P.g.nodes ≠ [] := by intro h0; rw [h0] at hn; simp at hn
  refine ⟨?_, ?_, others_not_blocked hsame h2 i hi tk htk, others_not_blocked hsame h1 i hi tk htk,
    others_not_blocked hsame h4 i hi tk htk⟩
  · intro e he hu
    refine others_not_blocked hsame (h3 e.v ?_) i hi tk htk
    rw [← hu]; exact mem_desc1_of_edge c.P.g e he hne
  · intro e1 he1 e2 he2 hu hv hS
    refine others_not_blocked hsame (h3 e2.v ?_) i hi tk htk
    rw [← hu]; exact mem_desc1_through_switch c.P.g e1 e2 he1 he2 hv hS hn

/-- the same on the failure path: a collaborator's exception leaving `_run_node` still runs the `finally` -/
theorem C02_failing_node_wakes_run_and_consumers (c : Ctx) (s : St) (obs : List Obs) (d : DagRef) (u : Node)
    (below : List Frame) (e : Exc) (hn : 2 ≤ c.P.g.nodes.length) :
    nodeCbRaise c s obs d u below e = raiseOut c (nodeFinally c.P s d u true) obs below (.exc e) ∧
    NoneBlocked (nodeFinally c.P s d u true) (.cond .run) ∧
    ∀ ed ∈ c.P.g.edges, ed.u = u → NoneBlocked (nodeFinally c.P s d u true) (.cond (.node ed.v)) := by
  obtain ⟨_, h2, h3, _⟩ := nodeFinally_wakes c.P s d u
  have hne : c.P.g.nodes ≠ [] := by intro h0; rw [h0] at hn; simp at hn
  refine ⟨rfl, h2, ?_⟩
  intro ed he hu
  exact h3 ed.v (by rw [← hu]; exact mem_desc1_of_edge c.P.g ed he hne)

/-- **when `_run_switch` returns, every consumer of the switch is woken** (the selected case may have been computed
before the switch was resolved: nobody else would notify them — the historic hang P4) -/
theorem C02_returning_switch_wakes_its_consumers (P : Program) (s : St) (S : Node) (hn : P.g.nodes ≠ []) :
    ∀ e ∈ P.g.edges, e.u = S → NoneBlocked (notifyAll s ((P.g.desc1 S).map Key.node)) (.cond (.node e.v)) := by
  intro e he hu
  refine notifyAll_noneBlocked _ _ _ (List.mem_map.mpr ⟨e.v, ?_, rfl⟩)
  rw [← hu]; exact mem_desc1_of_edge P.g e he hn

/-! ### Non-vacuity

The hypotheses are satisfiable by non-trivial programs: a diamond `0 → {1, 2} → 3` whose node 1 fails its first
attempt and is retried is a plain program (`PlainP`, by evaluating `plainCheck`), and running it for a few sections
(start of `chart.run`, DAG launch, first node tasks) gives live, pending, non-initial states to which the theorems
apply.  The driver additionally evaluates `plainCheck` on every generated plain program (see evidence). -/

/-- the theorems apply to a genuine mid-run state: it is live and pending, a retry timer is outstanding, two node tasks
are done, the launcher is blocked — and (by the theorem, not by evaluation) it is not stuck -/
example : ∃ s, liveRun demoDiamond init demoSchedule = some s ∧ Live demoDiamond s ∧ s.outcome = none ∧
    s.tasks.length = 5 ∧ stuck s = false := by
  have h : (liveRun demoDiamond init demoSchedule).isSome = true := by decide +kernel
  obtain ⟨s, hs⟩ := Option.isSome_iff_exists.mp h
  have hl := live_of_liveRun demoSchedule init s .init hs
  have ho : s.outcome = none := by
    have : ((liveRun demoDiamond init demoSchedule).map (fun s => s.outcome.isNone)) = some true := by decide +kernel
    rw [hs] at this; simpa using this
  have hlen : s.tasks.length = 5 := by
    have : ((liveRun demoDiamond init demoSchedule).map (fun s => s.tasks.length)) = some 5 := by decide +kernel
    rw [hs] at this; simpa using this
  exact ⟨s, hs, hl, ho, hlen, C02_plain_no_stuck_state _ _ demoDiamond_plain s hl ho⟩

/-- the diamond with an artifact store that suspends once while saving node 0's value -/
def demoDiamondCb : Program :=
  { demoDiamond with cbYield := fun cb n => match cb, n with | .save, 0 => 1 | _, _ => 0 }

theorem demoDiamondCb_plain : PlainP demoDiamondCb demoDag := by
  apply plainP_of_check (by decide) (fun _ => rfl) (fun _ => rfl)
  · intro n kw i k v h
    simp only [demoDiamondCb, demoDiamond] at h
    split at h
    · cases h
    · cases h; exact ⟨rfl, rfl⟩
  · intro _ _; exact ⟨rfl, rfl⟩
  · intro _; rfl

/-- node 0 has produced its value and stored it, its task is suspended inside `artifact_store.save`, nobody has been
notified yet: the launcher is still blocked on `cond[2]` although node 2 *is* ready — the situation the `Settled`
clause of the invariant is about.  By the theorem this state is not stuck (the saving task will run and notify). -/
example : ∃ s, liveRun demoDiamondCb init
      [.run 0 [] 0, .run 1 [0, 2, 1, 3] 0, .run 2 [] 0, .gate 0 0 1, .run 2 [] 0] = some s ∧
    (s.res 0).isSome = true ∧ (∃ tk, s.tasks[1]? = some tk ∧ tk.st = .blocked (.cond (.node 2))) ∧
    stuck s = false := by
  have h : (liveRun demoDiamondCb init
      [.run 0 [] 0, .run 1 [0, 2, 1, 3] 0, .run 2 [] 0, .gate 0 0 1, .run 2 [] 0]).isSome = true := by decide +kernel
  obtain ⟨s, hs⟩ := Option.isSome_iff_exists.mp h
  have hl := live_of_liveRun _ init s .init hs
  have fact : ∀ (f : St → Bool), ((liveRun demoDiamondCb init
      [.run 0 [] 0, .run 1 [0, 2, 1, 3] 0, .run 2 [] 0, .gate 0 0 1, .run 2 [] 0]).map f) = some true → f s = true := by
    intro f hf; rw [hs] at hf; simpa using hf
  have ho : s.outcome = none := by
    have := fact (fun s => s.outcome.isNone) (by decide +kernel); simpa using this
  have hres := fact (fun s => (s.res 0).isSome) (by decide +kernel)
  have hblk := fact (fun s => match s.tasks[1]? with
    | some tk => decide (tk.st = .blocked (.cond (.node 2))) | none => false) (by decide +kernel)
  refine ⟨s, hs, hres, ?_, C02_plain_no_stuck_state _ _ demoDiamondCb_plain s hl ho⟩
  cases h1 : s.tasks[1]? with
  | none => simp [h1] at hblk
  | some tk => exact ⟨tk, rfl, by simpa [h1] using hblk⟩

end MLPE.Eng

import MLPE.Proofs.EngC04
import MLPE.Proofs.RecScope

/-!
# C11 — recurrent subgraph: bounded re-execution; consumers see only the final result

General facts of the engine model, local to `_run_recurrent_subgraph` / `_run_node` (every program, every state):
* at most `max_iterations` re-runs: iteration `k` runs only if `k < max_iterations`; each re-run hands the data
  of the `Recurrent` result to the start node as `additional_data` and re-executes the nodes of the
  start→dest subgraph (`C11_iteration_runs_subgraph`, `C11_bound`);
* when iterations are exhausted: `get_default()` iff the destination opts in, otherwise
  `RecurrentSubgraphDoesNotHaveResultError` (contained inside a one-of scope) (`C11_exhausted`);
* a `Recurrent` result never unlocks the consumers: only the node's own condition and event are signalled
  (`C11_recurrent_result_does_not_unlock_consumers`), and `ready` refuses a `Recurrent` source (C03);
* nodes are re-executed only through `hide_last_execution` (C04);
* a restart forgets the decisions of the switches between start and destination, so their consumers wait for the new
  decision (`C11_restart_forgets_decisions`, `C11_consumer_waits_for_new_decision`), and the DAG of an iteration is the
  part of that scope the destination needs through ordinary edges — cases and one-of candidates are run by their
  switch / one-of, as in the first iteration (`C11_iteration_dag_is_lazy`; demo `demoSwRec`);
* a restart only *marks* the nodes between start and destination; a DAG that is about to run hides exactly its marked
  nodes, everything else keeps its result — a reader outside the subgraph is never left waiting for a node nobody
  needs again (`C11_invalidated_nodes_keep_results`, `C11_starting_dag_hides_its_invalidated_nodes`,
  `C11_starting_dag_leaves_the_rest`; demo `demoReader`);
* one `_run_recurrent_subgraph` per subgraph: a `Recurrent` result starts the loop only if it is not running already
  (`C11_no_second_loop_while_active`, `C11_first_recurrent_result_starts_the_loop`);
* a switch waits for its decision only, in the DAG of an iteration as in every other DAG
  (`C11_switch_readiness_ignores_cases`, `C11_switch_readiness_is_the_same_in_every_dag`).
**All programs, all schedules** (`Proofs/RecScope.lean`): in every reachable state a node whose execution was ever
invalidated belongs to the subgraph `start → dest` of a `RecurrentSubGraph` mark
(`C11_only_subgraph_nodes_are_invalidated`), so a node outside every recurrent subgraph is executed at most once in a
run, whoever requests it (`C11_outside_nodes_run_at_most_once`) — "nodes outside the subgraph are not re-executed".
-/
namespace MLPE.Eng
open MLPE

/-- iteration `k < max_iterations`: store the data for the start node, invalidate everything between start and
destination, then run the DAG of the iteration inline — which hides (results, processed marks, switch decisions) those
of its nodes that are invalidated; the others are hidden when a switch or a one-of needs them again -/
theorem C11_iteration_runs_subgraph (c : Ctx) (s : St) (obs : List Obs) (d : DagRef) (n start : Node) (g : DagRef)
    (k : Nat) (data : Val) (below : List Frame) (hk : k < ((c.P.g.attr n).maxIter).getD 0) :
    recIter c s obs d n start g k (.recur data) below =
      dagInit c ((s.setAdditional start data).invalidate (recScopeNodes c.P start n d.isOneof)) obs g
        (.recIterRet d n start g k :: below) := by
  simp [recIter, hk]

/-- no iteration beyond the bound: with `k ≥ max_iterations` the subgraph is not run again -/
theorem C11_exhausted (c : Ctx) (s : St) (obs : List Obs) (d : DagRef) (n start : Node) (g : DagRef)
    (k : Nat) (r : Val) (below : List Frame) (hk : ¬ k < ((c.P.g.attr n).maxIter).getD 0) :
    recIter c s obs d n start g k r below =
      if r.isRecur && (c.P.cfg n).useDefault then
        nodeStart c (s.hide [n]) obs d n true (.recDfltRet d n start :: below)
      else if d.isOneof then
        recFinish c (notifyAll (notify (s.setRes n (.exc ⟨"RecNoResult", n, 0, 0⟩)) (.node n))
          ((c.P.g.desc1 n).map Key.node)) obs n start below
      else raiseOut c (notify s .run) obs below (.exc ⟨"RecNoResult", n, 0, 0⟩) := by
  simp [recIter, hk]

/-- the iteration counter only moves forward by one per returned `Recurrent` result, and a non-`Recurrent`
result (or an error in the subgraph) ends the loop: at most `max_iterations` re-runs in total -/
theorem C11_bound (c : Ctx) (s : St) (d : DagRef) (n start : Node) (g : DagRef) (k : Nat) (v : Val)
    (below : List Frame) (tk : Task) (h : s.tasks[c.t]? = some tk) (hm : tk.mustCancel = false)
    (hf : tk.frames = .recIterRet d n start g k :: below) (hst : tk.st = .runnable (.ret v)) :
    stepTask c s =
      if hasError s g then
        some (retTo c (if v.isRecur then
            notifyAll (notify (s.setRes n (.exc (subgraphError c.P s g))) (.node n)) ((c.P.g.desc1 n).map Key.node)
          else s) [] below .none)
      else if !v.isRecur then some (recFinish c s [] n start below)
      else some (recIter c s [] d n start g (k + 1) v below) := by
  simp [stepTask, h, hm, hf, hst]

/-- a `Recurrent` result does not wake the consumers: the `finally` of `_run_node` signals only the node's own
event and condition -/
theorem C11_recurrent_result_does_not_unlock_consumers (P : Program) (s : St) (d : DagRef) (n : Node) :
    nodeFinally P s d n false = notify (setEvent s n) (.node n) := by
  simp [nodeFinally]

theorem C11_recurrent_result_uses_no_unlock (c : Ctx) (s : St) (obs : List Obs) (d : DagRef) (n : Node)
    (below : List Frame) (data : Val) (e : Bool) :
    nodePost c s obs d n below (.recur data) e =
      retTo c (nodeFinally c.P (storeIf (recSpawn c.P s d n (.recur data)) e n (.recur data)) d n false)
        (if recSpawns c.P s n (.recur data) then obs ++ [.spawn s.tasks.length (.recur n)] else obs) below .none := by
  simp [nodePost, Val.isRecur]

/-- **one `_run_recurrent_subgraph` per subgraph** (repo fix): a `Recurrent` result starts the task of the subgraph only if
the subgraph is not being restarted already — the running loop takes the new result itself.  (A task created anyway could
start after that loop had finished, and restarted the subgraph all over again: more than `max_iterations` re-runs, and the
default / final result replaced.) -/
theorem C11_no_second_loop_while_active (P : Program) (s : St) (d : DagRef) (n start : Node) (v : Val)
    (hst : (P.g.attr n).startNode = some start) (hact : (start, n) ∈ s.active) :
    recSpawn P s d n v = s ∧ recSpawns P s n v = false := by
  have : recSpawns P s n v = false := by
    simp only [recSpawns, hst, Bool.and_eq_false_imp]
    intro _
    simpa using hact
  exact ⟨by simp [recSpawn, this], this⟩

theorem C11_first_recurrent_result_starts_the_loop (P : Program) (s : St) (d : DagRef) (n start : Node) (data : Val)
    (hst : (P.g.attr n).startNode = some start) (hact : (start, n) ∉ s.active) :
    recSpawn P s d n (.recur data) = (spawn s [.recStart d n (.recur data)] (.recur n)).1 := by
  simp [recSpawn, recSpawns, hst, Val.isRecur, hact]

/-- re-execution needs a hide (C04), and only recurrent `_run_dag`s and the default fallback hide -/
theorem C11_reexecution_needs_hide (P : Program) (s : St) (h : Reach P s) (n : Node) (h0 : s.hideCount n = 0) :
    s.invCount n ≤ 1 := by
  have := (coreInv_reach h n).1
  simp only [St.core] at this
  omega

/-! ### All programs, all schedules: re-execution happens only inside recurrent subgraphs -/

/-- **C11 (all programs, all schedules): a node is re-executed only inside a recurrent subgraph** — in every reachable
state a node whose last execution has ever been invalidated is a node of the subgraph `start → dest` of some
`RecurrentSubGraph` mark (or such a destination) -/
theorem C11_only_subgraph_nodes_are_invalidated (P : Program) (s : St) (h : Reach P s) (n : Node)
    (hn : 0 < s.hideCount n) : s.badOrd = true ∨ InRecScope P n :=
  hidden_in_rec_scope h n hn

/-- **nodes outside the subgraph are not re-executed**: a node that belongs to no recurrent subgraph is executed at most
once in a run, whoever requests it and however the requests interleave -/
theorem C11_outside_nodes_run_at_most_once (P : Program) (s : St) (h : Reach P s) (n : Node)
    (hout : ¬ InRecScope P n) (hord : s.badOrd = false) : s.invCount n ≤ 1 := by
  have h0 : s.hideCount n = 0 := by
    cases hc : s.hideCount n with
    | zero => rfl
    | succ k =>
      rcases hidden_in_rec_scope h n (by omega) with hb | hr
      · rw [hord] at hb; cases hb
      · exact absurd hr hout
  have := (coreInv_reach h n).1
  simp only [St.core] at this
  omega

/-- a recurrent pipeline `0 → 1 → 2 → 3` whose destination `2` asks once for another iteration of `1 → 2` -/
def demoRec : Program :=
  { g := { nodes := [0, 1, 2, 3],
           edges := [{ u := 0, v := 1, kwarg := some "a" }, { u := 1, v := 2, kwarg := some "a" },
                     { u := 2, v := 3, kwarg := some "a" }],
           attr := fun n => if n = 2 then { startNode := some 1, maxIter := some 2 } else {}, input := 0, output := 3 },
    cfg := fun _ => {},
    body := fun n _ inv _ => if n = 2 ∧ inv = 0 then .ret (.recur (.str "d")) else .ret (.int n),
    dflt := fun _ _ => .none,
    inputKw := [] }

def demoRecRun : List Choice :=
  [.run 0 [] 0, .run 1 [0, 1, 2, 3] 0, .run 2 [] 0, .gate 0 0 1, .run 2 [] 0, .run 0 [] 0, .run 1 [] 0,
   .run 3 [] 0, .gate 1 0 1, .run 3 [] 0, .run 0 [] 0, .run 1 [] 0, .run 4 [] 0, .gate 2 0 1,
   .run 4 [] 0, .run 5 [1, 2] 0, .run 6 [] 0, .gate 1 1 1, .run 6 [] 0, .run 0 [] 0, .run 5 [] 0,
   .run 7 [] 0, .gate 2 1 1, .run 7 [] 0, .run 0 [] 0, .run 1 [] 0, .run 5 [] 0, .run 5 [1, 2] 0,
   .run 8 [] 0, .gate 3 0 1, .run 8 [] 0, .run 0 [] 0]

def runChoicesC11 (P : Program) : St → List Choice → Option St
  | s, [] => some s
  | s, c :: cs => match step P s c with
    | some (s', _) => runChoicesC11 P s' cs
    | none => none

theorem reach_of_runC11 {P : Program} : ∀ (cs : List Choice) (s s' : St), Reach P s → runChoicesC11 P s cs = some s' → Reach P s'
  | [], s, s', h, hr => by simp [runChoicesC11] at hr; exact hr ▸ h
  | c :: cs, s, s', h, hr => by
    simp only [runChoicesC11] at hr
    split at hr
    · next s1 obs hs => exact reach_of_runC11 cs s1 s' (.step h hs) hr
    · cases hr

/-- non-vacuity: a complete run of the demo — the subgraph nodes `1`, `2` are invalidated once and executed twice, the
outside nodes `0`, `3` once; the theorems apply to its final state -/
example : ∃ s, runChoicesC11 demoRec init demoRecRun = some s ∧ Reach demoRec s ∧ s.badOrd = false ∧
    s.hideCount 1 = 1 ∧ s.invCount 1 = 2 ∧ s.invCount 2 = 2 ∧ InRecScope demoRec 1 ∧
    ¬ InRecScope demoRec 0 ∧ s.invCount 0 ≤ 1 ∧ ¬ InRecScope demoRec 3 ∧ s.invCount 3 ≤ 1 ∧
    ∃ v, s.outcome = some (.value v) := by
  have h : (runChoicesC11 demoRec init demoRecRun).isSome = true := by decide +kernel
  obtain ⟨s, hs⟩ := Option.isSome_iff_exists.mp h
  have hr := reach_of_runC11 demoRecRun init s .init hs
  have fact : ∀ (f : St → Bool), ((runChoicesC11 demoRec init demoRecRun).map f) = some true → f s = true := by
    intro f hf; rw [hs] at hf; simpa using hf
  have hord : s.badOrd = false := by simpa using fact (fun s => !s.badOrd) (by decide +kernel)
  have h1 : s.hideCount 1 = 1 := by simpa using fact (fun s => decide (s.hideCount 1 = 1)) (by decide +kernel)
  have h2 : s.invCount 1 = 2 := by simpa using fact (fun s => decide (s.invCount 1 = 2)) (by decide +kernel)
  have h3 : s.invCount 2 = 2 := by simpa using fact (fun s => decide (s.invCount 2 = 2)) (by decide +kernel)
  have hout : ∀ n, n = 0 ∨ n = 3 → ¬ InRecScope demoRec n := by
    intro n hn hsc
    rcases hsc with ⟨dst, start, io, g, hst, hg, hmem⟩ | hst
    · -- the only mark is (start 1, dest 2); its subgraph is [1, 2]
      have hd : dst = 2 := by
        simp only [demoRec] at hst
        split at hst
        · assumption
        · cases hst
      subst hd
      have hs1 : start = 1 := by simp [demoRec] at hst; exact hst.symm
      subst hs1
      have : g.nodes = [1, 2] := by
        cases io
        · have : recGraph demoRec 1 2 false = some g := hg
          have h' : (recGraph demoRec 1 2 false).map (·.nodes) = some [1, 2] := by decide +kernel
          rw [this] at h'; simpa using h'
        · have : recGraph demoRec 1 2 true = some g := hg
          have h' : (recGraph demoRec 1 2 true).map (·.nodes) = some [1, 2] := by decide +kernel
          rw [this] at h'; simpa using h'
      rw [this] at hmem
      rcases hn with rfl | rfl <;> simp at hmem
    · rcases hn with rfl | rfl <;> simp [demoRec] at hst
  have hin : InRecScope demoRec 1 := by
    refine Or.inl ⟨2, 1, false, ?_⟩
    have h' : (recGraph demoRec 1 2 false).isSome = true := by decide +kernel
    obtain ⟨g, hg⟩ := Option.isSome_iff_exists.mp h'
    refine ⟨g, by simp [demoRec], hg, ?_⟩
    have h'' : (recGraph demoRec 1 2 false).map (fun g => g.nodes.contains 1) = some true := by decide +kernel
    rw [hg] at h''; simpa using h''
  have hval : ∃ v, s.outcome = some (.value v) := by
    have := fact (fun s => match s.outcome with | some (.value _) => true | _ => false) (by decide +kernel)
    cases ho : s.outcome with
    | none => simp [ho] at this
    | some o => cases o <;> simp [ho] at this; exact ⟨_, rfl⟩
  exact ⟨s, hs, hr, hord, h1, h2, h3, hin, hout 0 (Or.inl rfl),
    C11_outside_nodes_run_at_most_once demoRec s hr 0 (hout 0 (Or.inl rfl)) hord, hout 3 (Or.inr rfl),
    C11_outside_nodes_run_at_most_once demoRec s hr 3 (hout 3 (Or.inr rfl)) hord, hval⟩


/-! ### switches and one-ofs inside the restarted scope (repo fix 12d4978) -/

/-- **a restart forgets the decisions of the switches it invalidates** (repo fix 12d4978) — and only those -/
theorem C11_restart_forgets_decisions (s : St) (ns : List Node) (n : Node) :
    (s.hide ns).sw n = if ns.contains n then none else s.sw n := rfl

/-- a hidden node has no visible result: whoever waits for it is not ready -/
theorem C11_hidden_source_blocks (P : Program) (s : St) (ns : List Node) (d : DagRef) (c p : Node)
    (hp : p ∈ predsFor P (s.hide ns) d c) (hn : p ∈ ns) : ready P (s.hide ns) d c = false := by
  cases hr : ready P (s.hide ns) d c with
  | false => rfl
  | true =>
    unfold ready at hr
    simp only [List.all_eq_true, Bool.and_eq_true] at hr
    have := (hr p hp).1
    simp only [St.exists, St.hide, Bool.and_eq_true, Bool.not_eq_true'] at this
    have h2 := this.2
    simp at h2
    exact absurd hn h2.1

/-- **the consumer of a switch inside the restarted scope waits for the new decision**: after the restart the switch
stands for itself among the consumer's sources again (not for the case selected in the previous iteration), and it has no
visible result, so the consumer is not ready — until `_run_switch` records a decision and wakes it -/
theorem C11_consumer_waits_for_new_decision (P : Program) (s : St) (ns : List Node) (d : DagRef) (c S : Node)
    (hS : P.g.isSwitch S = true) (hin : S ∈ ns) (hpre : S ∈ P.g.preds c)
    (hc1 : P.g.isSwitch c = false) (hc2 : P.g.isOneofHead c = false) (hd : d.isRec = true → S ∈ d.nodes) :
    ready P (s.hide ns) d c = false := by
  apply C11_hidden_source_blocks P s ns d c S _ hin
  unfold predsFor
  simp only [hc1, hc2, Bool.false_and, Bool.false_or, Bool.false_eq_true, if_false, Bool.not_false,
    Bool.and_true]
  have hsw : (s.hide ns).sw S = none := by
    rw [C11_restart_forgets_decisions]
    have : ns.contains S = true := by simpa using hin
    rw [this]; rfl
  apply List.mem_map.mpr
  refine ⟨S, ?_, ?_⟩
  · split
    · next hrec =>
      simp only [List.mem_filter, List.contains_iff_mem]
      exact ⟨hpre, hd hrec⟩
    · exact hpre
  · simp only [hS, if_true, hsw]

/-- **the DAG of an iteration is lazy** (repo fix 12d4978): it consists of nodes of the restarted scope that the
destination needs through ordinary edges — a case node or a one-of candidate is in it only if somebody reads it as an
ordinary dependency as well; the flags and the destination are those of the scope -/
theorem C11_iteration_dag_is_lazy (P : Program) (s : St) (scope g : DagRef) (dst : Node)
    (h : recLaunch P s scope dst = some g) :
    (∃ r, reducedRef P s P.g.input dst false false false = some r ∧
        ∀ m, m ∈ g.nodes ↔ (m ∈ scope.nodes ∧ m ∈ r.nodes)) ∧
      g.isRec = scope.isRec ∧ g.isOneof = scope.isOneof ∧ g.dest = scope.dest := by
  unfold recLaunch at h
  split at h
  · cases h
  · next r hr =>
    cases h
    refine ⟨⟨r, hr, ?_⟩, rfl, rfl, rfl⟩
    intro m
    simp [List.mem_filter]

/-- a switch inside a recurrent subgraph: `1 → 2 (decision) → 8 (switch, cases 3 | 4) → 5 → 6`, the destination `6` asks
once for another iteration of `1 → 6`; the decision is `l0` in the first iteration and `l1` in the second; the cases `3`,
`4` lie outside the subgraph -/
def demoSwRec : Program :=
  { g := { nodes := [0, 1, 2, 3, 4, 5, 6, 7, 8],
           edges := [{ u := 0, v := 1, kwarg := some "a" }, { u := 1, v := 2, kwarg := some "a" }, { u := 0, v := 3 },
                     { u := 0, v := 4 }, { u := 8, v := 5, kwarg := some "a" }, { u := 5, v := 6, kwarg := some "a" },
                     { u := 6, v := 7, kwarg := some "a" }, { u := 2, v := 8, isSwitch := true },
                     { u := 3, v := 8, case := some "l0" }, { u := 4, v := 8, case := some "l1" }],
           attr := fun n => if n = 8 then { isSwitch := true, inMap := false }
                            else if n = 6 then { startNode := some 1, maxIter := some 2 } else {},
           input := 0, output := 7, order := [6, 7, 5, 8, 2, 3, 4, 0, 1] },
    cfg := fun _ => {},
    body := fun n _ inv _ =>
      if n = 2 then (if inv = 0 then .ret (.str "l0") else .ret (.str "l1"))
      else if n = 6 ∧ inv = 0 then .ret (.recur (.str "d")) else .ret (.int n),
    dflt := fun _ _ => .none,
    inputKw := [] }

/-- the schedule the real engine follows on this pipeline (FIFO), as recorded by the harness -/
def demoSwRecRun : List Choice :=
  [.run 0 [] 0, .run 1 [0, 1, 2, 8, 5, 6, 7] 0, .run 2 [] 0, .gate 0 0 1, .run 2 [] 0, .run 1 [] 0, .run 0 [] 0, .run 3 [] 0, .gate 1 0 1, .run 3 [] 0, .run 1 [] 0, .run 0 [] 0, .run 4 [] 0, .gate 2 0 1, .run 4 [] 0, .run 1 [] 0, .run 0 [] 0, .run 5 [3] 0, .run 6 [] 0, .gate 3 0 1, .run 6 [] 0, .run 1 [] 0, .run 0 [] 0, .run 5 [] 0, .run 7 [] 0, .gate 5 0 1, .run 7 [] 0, .run 1 [] 0, .run 0 [] 0, .run 8 [] 0, .gate 6 0 1, .run 8 [] 0, .run 9 [1, 2, 8, 5, 6] 0, .run 10 [] 0, .gate 1 1 1, .run 10 [] 0, .run 9 [] 0, .run 0 [] 0, .run 11 [] 0, .gate 2 1 1, .run 11 [] 0, .run 9 [] 0, .run 0 [] 0, .run 12 [4] 0, .run 13 [] 0, .gate 4 0 1, .run 13 [] 0, .run 9 [] 0, .run 0 [] 0, .run 12 [] 0, .run 14 [] 0, .gate 5 1 1, .run 14 [] 0, .run 9 [] 0, .run 0 [] 0, .run 15 [] 0, .gate 6 1 1, .run 15 [] 0, .run 1 [] 0, .run 0 [] 0, .run 9 [] 0, .run 16 [] 0, .gate 7 0 1, .run 16 [] 0, .run 0 [] 0, .run 1 [] 0]



/-- non-vacuity of the repaired behaviour, on the schedule of the real engine: **after the restart** (33 steps) the
decision of the switch is forgotten, its consumer `5` is not ready in the DAG of the iteration, the cases — outside the
scope — keep their results; **at the end** the second decision `l1 ↦ 4` is recorded, each case has been executed exactly
once (the DAG of the iteration did not run them), the consumer twice, and the run returned a value -/
example : (∃ s, runChoicesC11 demoSwRec init (demoSwRecRun.take 33) = some s ∧ Reach demoSwRec s ∧ s.sw 8 = none ∧
      s.hideCount 8 = 1 ∧ s.hideCount 3 = 0 ∧
      ready demoSwRec s { source := 1, dest := some 6, nodes := [1, 2, 8, 5, 6], isRec := true } 5 = false) ∧
    (∃ s, runChoicesC11 demoSwRec init demoSwRecRun = some s ∧ Reach demoSwRec s ∧ s.badOrd = false ∧
      s.sw 8 = some ("l1", 4) ∧ s.invCount 3 = 1 ∧ s.invCount 4 = 1 ∧ s.invCount 5 = 2 ∧
      ∃ v, s.outcome = some (.value v)) := by
  constructor
  · have h : (runChoicesC11 demoSwRec init (demoSwRecRun.take 33)).isSome = true := by decide +kernel
    obtain ⟨s, hs⟩ := Option.isSome_iff_exists.mp h
    have hr := reach_of_runC11 _ init s .init hs
    have fact : ∀ (f : St → Bool), ((runChoicesC11 demoSwRec init (demoSwRecRun.take 33)).map f) = some true →
        f s = true := by
      intro f hf; rw [hs] at hf; simpa using hf
    refine ⟨s, hs, hr, ?_, ?_, ?_, ?_⟩
    · simpa using fact (fun s => decide (s.sw 8 = none)) (by decide +kernel)
    · simpa using fact (fun s => decide (s.hideCount 8 = 1)) (by decide +kernel)
    · simpa using fact (fun s => decide (s.hideCount 3 = 0)) (by decide +kernel)
    · simpa using fact (fun s => !ready demoSwRec s
        { source := 1, dest := some 6, nodes := [1, 2, 8, 5, 6], isRec := true } 5) (by decide +kernel)
  · have h : (runChoicesC11 demoSwRec init demoSwRecRun).isSome = true := by decide +kernel
    obtain ⟨s, hs⟩ := Option.isSome_iff_exists.mp h
    have hr := reach_of_runC11 _ init s .init hs
    have fact : ∀ (f : St → Bool), ((runChoicesC11 demoSwRec init demoSwRecRun).map f) = some true → f s = true := by
      intro f hf; rw [hs] at hf; simpa using hf
    refine ⟨s, hs, hr, ?_, ?_, ?_, ?_, ?_, ?_⟩
    · simpa using fact (fun s => !s.badOrd) (by decide +kernel)
    · simpa using fact (fun s => decide (s.sw 8 = some ("l1", 4))) (by decide +kernel)
    · simpa using fact (fun s => decide (s.invCount 3 = 1)) (by decide +kernel)
    · simpa using fact (fun s => decide (s.invCount 4 = 1)) (by decide +kernel)
    · simpa using fact (fun s => decide (s.invCount 5 = 2)) (by decide +kernel)
    · have := fact (fun s => match s.outcome with | some (.value _) => true | _ => false) (by decide +kernel)
      cases ho : s.outcome with
      | none => simp [ho] at this
      | some o => cases o <;> simp [ho] at this; exact ⟨_, rfl⟩

/-! ### lazy invalidation (repo fix 35c5865) -/

/-- **a restart only marks**: the nodes between start and destination keep their results, processed marks and decisions
— a node that no iteration needs again is still there for whoever reads it from outside the subgraph (repo fix 35c5865; hiding
them all at once left such a reader waiting forever) -/
theorem C11_invalidated_nodes_keep_results (s : St) (ns : List Node) :
    (s.invalidate ns).res = s.res ∧ (s.invalidate ns).resHid = s.resHid ∧ (s.invalidate ns).proc = s.proc ∧
    (s.invalidate ns).procHid = s.procHid ∧ (s.invalidate ns).sw = s.sw ∧ (s.invalidate ns).hideCount = s.hideCount ∧
    ∀ n, n ∈ (s.invalidate ns).stale ↔ n ∈ ns ∨ n ∈ s.stale :=
  ⟨rfl, rfl, rfl, rfl, rfl, rfl, fun n => by simp [St.invalidate]⟩

/-- **a DAG that is about to run hides exactly its invalidated nodes** (result, processed mark, decision), which are then
no longer marked: they are executed again because this DAG needs them -/
theorem C11_starting_dag_hides_its_invalidated_nodes (s : St) (ns : List Node) (n : Node) (hn : n ∈ ns)
    (hst : n ∈ s.stale) :
    (s.refresh ns).resHid n = true ∧ (s.refresh ns).procHid n = true ∧ (s.refresh ns).sw n = none ∧
    (s.refresh ns).hideCount n = s.hideCount n + 1 ∧ n ∉ (s.refresh ns).stale := by
  unfold St.refresh
  split
  · next h =>
    have : s.stale = [] := by simpa using h
    rw [this] at hst; cases hst
  · have hc : (ns.filter s.stale.contains).contains n = true := by
      simp only [List.contains_iff_mem, List.mem_filter]
      exact ⟨hn, hst⟩
    refine ⟨?_, ?_, ?_, ?_, ?_⟩
    · simp only [St.hide, hc, if_true]
    · simp only [St.hide, hc, if_true]
    · simp only [St.hide, hc, if_true]
    · simp only [St.hide, hc, if_true]
    · intro hmem
      simp only [List.mem_filter, hc, Bool.not_true] at hmem
      exact absurd hmem.2 (by simp)

/-- … and nothing else: a node outside the DAG, or one that no restart has marked, keeps its state -/
theorem C11_starting_dag_leaves_the_rest (s : St) (ns : List Node) (n : Node) (hn : n ∉ ns ∨ n ∉ s.stale) :
    (s.refresh ns).resHid n = s.resHid n ∧ (s.refresh ns).procHid n = s.procHid n ∧ (s.refresh ns).sw n = s.sw n ∧
    (s.refresh ns).hideCount n = s.hideCount n ∧ (s.refresh ns).res n = s.res n ∧
    (n ∈ (s.refresh ns).stale ↔ n ∈ s.stale) := by
  unfold St.refresh
  split
  · exact ⟨rfl, rfl, rfl, rfl, rfl, Iff.rfl⟩
  · have hc : (ns.filter s.stale.contains).contains n = false := by
      cases h : (ns.filter s.stale.contains).contains n with
      | false => rfl
      | true =>
        simp only [List.contains_iff_mem, List.mem_filter] at h
        rcases hn with h1 | h1
        · exact absurd h.1 h1
        · exact absurd h.2 h1
    refine ⟨?_, ?_, ?_, ?_, rfl, ?_⟩
    · simp only [St.hide, hc, Bool.false_eq_true, if_false]
    · simp only [St.hide, hc, Bool.false_eq_true, if_false]
    · simp only [St.hide, hc, Bool.false_eq_true, if_false]
    · simp only [St.hide, hc, Bool.false_eq_true, if_false]
    · simp only [List.mem_filter, hc, Bool.not_false, and_true]

/-- the consumer of a switch of the DAG that starts waits for the new decision (the statement above, for the state the
DAG really starts in) -/
theorem C11_started_dag_consumer_waits_for_new_decision (P : Program) (s : St) (ns : List Node) (d : DagRef) (c S : Node)
    (hS : P.g.isSwitch S = true) (hin : S ∈ ns) (hst : S ∈ s.stale) (hpre : S ∈ P.g.preds c)
    (hc1 : P.g.isSwitch c = false) (hc2 : P.g.isOneofHead c = false) (hd : d.isRec = true → S ∈ d.nodes) :
    ready P (s.refresh ns) d c = false := by
  unfold St.refresh
  split
  · next h =>
    have : s.stale = [] := by simpa using h
    rw [this] at hst; cases hst
  · exact C11_consumer_waits_for_new_decision P s _ d c S hS
      (by simp only [List.mem_filter, List.contains_iff_mem]; exact ⟨hin, hst⟩) hpre hc1 hc2 hd

/-- a reader outside a recurrent subgraph of a node that no iteration needs again: `1 → 2 → 3`, `5 ← OneOf[4, 3]` (head `7`),
the destination `5` asks once for another iteration of `1 → 5`, the output `6` reads `5` *and* `2`.  Between `1` and `5`
lie `1, 2, 3, 7, 5`; the first candidate `4` succeeds, so `3` — and with it `2` and `1` — is never needed again -/
def demoReader : Program :=
  { g := { nodes := [0, 1, 2, 3, 4, 5, 6, 7],
           edges := [{ u := 0, v := 1, kwarg := some "a" }, { u := 1, v := 2, kwarg := some "a" },
                     { u := 2, v := 3, kwarg := some "a" }, { u := 0, v := 4 }, { u := 7, v := 5, kwarg := some "a" },
                     { u := 5, v := 6, kwarg := some "a" }, { u := 2, v := 6, kwarg := some "b" }, { u := 0, v := 7 },
                     { u := 4, v := 7 }, { u := 3, v := 7 }],
           attr := fun n => if n = 7 then { isOneofHead := true, oneofNodes := [4, 3], inMap := false }
                            else if n = 5 then { startNode := some 1, maxIter := some 2 }
                            else if n = 3 ∨ n = 4 then { isOneofChild := true } else {},
           input := 0, output := 6, order := [5, 6, 2, 1, 0, 7, 4, 3] },
    cfg := fun _ => {},
    body := fun n _ inv _ => if n = 5 ∧ inv = 0 then .ret (.recur (.str "d")) else .ret (.int n),
    dflt := fun _ _ => .none,
    inputKw := [] }

/-- a schedule of the real engine (recorded by the harness) in which `2` completes before the restart -/
def demoReaderRun : List Choice :=
  [.run 0 [] 0, .run 1 [0, 1, 7, 2, 5, 6] 0, .run 2 [] 0, .gate 0 0 1, .run 2 [] 0, .run 1 [] 0, .run 0 [] 0, .run 3 [] 0, .run 4 [] 0, .gate 1 0 1, .run 5 [4] 0, .run 3 [] 0, .run 6 [] 0, .run 1 [] 0, .gate 4 0 1, .run 0 [] 0, .run 7 [] 0, .run 6 [] 0, .gate 2 0 1, .run 0 [] 0, .run 4 [] 0, .run 5 [] 0, .run 7 [] 0, .run 1 [] 0, .run 0 [] 0, .run 8 [] 0, .gate 5 0 1, .run 8 [] 0, .run 9 [7, 5] 0, .run 10 [] 0, .run 11 [] 0, .run 9 [] 0, .run 0 [] 0, .run 12 [] 0, .gate 5 1 1, .run 12 [] 0, .run 1 [] 0, .run 0 [] 0, .run 9 [] 0, .run 13 [] 0, .gate 6 0 1, .run 13 [] 0, .run 0 [] 0, .run 1 [] 0]


/-- non-vacuity, and the shape that deadlocked between 12d4978 and 35c5865: **after the restart** (29 steps) the nodes
`1, 2, 3` are marked but visible, the destination and the one-of of the iteration DAG are hidden; **at the end** they are
still only marked (nobody needed them again), `2` has been executed once and never hidden, the destination twice — and the
run returned a value: the outside reader `6` got its arguments -/
example : (∃ s, runChoicesC11 demoReader init (demoReaderRun.take 29) = some s ∧ Reach demoReader s ∧
      s.stale = [1, 2, 3] ∧ s.resHid 2 = false ∧ s.resHid 5 = true ∧ s.resHid 7 = true) ∧
    (∃ s, runChoicesC11 demoReader init demoReaderRun = some s ∧ Reach demoReader s ∧ s.badOrd = false ∧
      s.stale = [1, 2, 3] ∧ s.resHid 2 = false ∧ s.hideCount 2 = 0 ∧ s.invCount 2 = 1 ∧ s.invCount 3 = 0 ∧
      s.invCount 5 = 2 ∧ ∃ v, s.outcome = some (.value v)) := by
  constructor
  · have h : (runChoicesC11 demoReader init (demoReaderRun.take 29)).isSome = true := by decide +kernel
    obtain ⟨s, hs⟩ := Option.isSome_iff_exists.mp h
    have hr := reach_of_runC11 _ init s .init hs
    have fact : ∀ (f : St → Bool), ((runChoicesC11 demoReader init (demoReaderRun.take 29)).map f) = some true →
        f s = true := by
      intro f hf; rw [hs] at hf; simpa using hf
    refine ⟨s, hs, hr, ?_, ?_, ?_, ?_⟩
    · simpa using fact (fun s => decide (s.stale = [1, 2, 3])) (by decide +kernel)
    · simpa using fact (fun s => !s.resHid 2) (by decide +kernel)
    · simpa using fact (fun s => s.resHid 5) (by decide +kernel)
    · simpa using fact (fun s => s.resHid 7) (by decide +kernel)
  · have h : (runChoicesC11 demoReader init demoReaderRun).isSome = true := by decide +kernel
    obtain ⟨s, hs⟩ := Option.isSome_iff_exists.mp h
    have hr := reach_of_runC11 _ init s .init hs
    have fact : ∀ (f : St → Bool), ((runChoicesC11 demoReader init demoReaderRun).map f) = some true → f s = true := by
      intro f hf; rw [hs] at hf; simpa using hf
    refine ⟨s, hs, hr, ?_, ?_, ?_, ?_, ?_, ?_, ?_, ?_⟩
    · simpa using fact (fun s => !s.badOrd) (by decide +kernel)
    · simpa using fact (fun s => decide (s.stale = [1, 2, 3])) (by decide +kernel)
    · simpa using fact (fun s => !s.resHid 2) (by decide +kernel)
    · simpa using fact (fun s => decide (s.hideCount 2 = 0)) (by decide +kernel)
    · simpa using fact (fun s => decide (s.invCount 2 = 1)) (by decide +kernel)
    · simpa using fact (fun s => decide (s.invCount 3 = 0)) (by decide +kernel)
    · simpa using fact (fun s => decide (s.invCount 5 = 2)) (by decide +kernel)
    · have := fact (fun s => match s.outcome with | some (.value _) => true | _ => false) (by decide +kernel)
      cases ho : s.outcome with
      | none => simp [ho] at this
      | some o => cases o <;> simp [ho] at this; exact ⟨_, rfl⟩


/-! ### switch readiness in the DAG of an iteration (repo fix 4bfc65e) -/

/-- **a switch is resolved as soon as its decision is known — in every DAG** (repo fix 4bfc65e): what a switch node waits
for are the sources of its decision edges only, whatever DAG launches it; in particular not a case node that happens to be
a node of the DAG of a restarted recurrent subgraph, which nothing orders before the switch there -/
theorem C11_switch_readiness_ignores_cases (P : Program) (s : St) (d : DagRef) (S : Node) (hS : P.g.isSwitch S = true) :
    predsFor P s d S =
      ((P.g.edges.filter (fun e => e.v == S && e.isSwitch)).map (·.u)).map
        (fun p => if P.g.isSwitch p then (match s.sw p with | some (_, c) => c | none => p) else p) := by
  unfold predsFor
  simp only [hS, if_true]
  rfl

theorem C11_switch_readiness_is_the_same_in_every_dag (P : Program) (s : St) (d d' : DagRef) (S : Node)
    (hS : P.g.isSwitch S = true) : ready P s d S = ready P s d' S := by
  unfold ready
  rw [C11_switch_readiness_ignores_cases P s d S hS, C11_switch_readiness_ignores_cases P s d' S hS]


end MLPE.Eng

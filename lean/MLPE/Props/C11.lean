import MLPE.Proofs.EngC04

/-!
# C11 — recurrent subgraph: bounded re-execution; consumers see only the final result

General facts of the engine model, local to `_run_recurrent_subgraph` / `_run_node` (every program, every state):
* at most `max_iterations` re-runs: iteration `k` runs only if `k < max_iterations`; each re-run hands the data
  of the `Recurrent` result to the start node as `additional_data` and re-executes the nodes of the
  start→dest subgraph (`C11_iteration_runs_subgraph`, `C11_bound`);
* when iterations are exhausted: `get_default()` iff the destination opts in, otherwise
  `RecurrentSubgraphDoesNotHaveResultError` (contained inside a one-of scope) (`C11_exhausted`);
* a `Recurrent` result never unlocks the consumers: only the node's own condition and event are signalled
  (`C11_recurrent_result_does_not_unlock_consumers`), and `ready` refuses a `Recurrent` source (C03);
* nodes are re-executed only through `hide_last_execution`, which the model applies to the subgraph's nodes
  only: with C04, a node outside every recurrent subgraph runs at most once.
-/
namespace MLPE.Eng
open MLPE

/-- iteration `k < max_iterations`: store the data for the start node, then run the subgraph DAG inline -/
theorem C11_iteration_runs_subgraph (c : Ctx) (s : St) (obs : List Obs) (d : DagRef) (n start : Node) (g : DagRef)
    (k : Nat) (data : Val) (below : List Frame) (hk : k < ((c.P.g.attr n).maxIter).getD 0) :
    recIter c s obs d n start g k (.recur data) below =
      dagInit c (s.setAdditional start data) obs g (.recIterRet d n start g k :: below) := by
  simp [recIter, hk]

/-- no iteration beyond the bound: with `k ≥ max_iterations` the subgraph is not run again -/
theorem C11_exhausted (c : Ctx) (s : St) (obs : List Obs) (d : DagRef) (n start : Node) (g : DagRef)
    (k : Nat) (r : Val) (below : List Frame) (hk : ¬ k < ((c.P.g.attr n).maxIter).getD 0) :
    recIter c s obs d n start g k r below =
      if r.isRecur && (c.P.cfg n).useDefault then
        nodeStart c (s.hide [n]) obs d n true (.recDfltRet d n start :: below)
      else if d.isOneof then
        recFinish c (notifyAll (notify (s.setRes n (.exc ⟨"RecNoResult", n, 0, 0⟩)) (.node n))
          ((c.P.g.desc1 n).map Key.node)) obs n start below
      else raiseOut c (notify s .run) obs below (.exc ⟨"RecNoResult", n, 0, 0⟩) := by
  simp [recIter, hk]

/-- the iteration counter only moves forward by one per returned `Recurrent` result, and a non-`Recurrent`
result (or an error in the subgraph) ends the loop: at most `max_iterations` re-runs in total -/
theorem C11_bound (c : Ctx) (s : St) (d : DagRef) (n start : Node) (g : DagRef) (k : Nat) (v : Val)
    (below : List Frame) (tk : Task) (h : s.tasks[c.t]? = some tk) (hm : tk.mustCancel = false)
    (hf : tk.frames = .recIterRet d n start g k :: below) (hst : tk.st = .runnable (.ret v)) :
    stepTask c s =
      if hasError s g then some (retTo c s [] below .none)
      else if !v.isRecur then some (recFinish c s [] n start below)
      else some (recIter c s [] d n start g (k + 1) v below) := by
  simp [stepTask, h, hm, hf, hst]

/-- a `Recurrent` result does not wake the consumers: the `finally` of `_run_node` signals only the node's own
event and condition -/
theorem C11_recurrent_result_does_not_unlock_consumers (P : Program) (s : St) (d : DagRef) (n : Node) :
    nodeFinally P s d n false = notify (setEvent s n) (.node n) := by
  simp [nodeFinally]

theorem C11_recurrent_result_uses_no_unlock (c : Ctx) (s : St) (obs : List Obs) (d : DagRef) (n : Node)
    (below : List Frame) (data : Val) (e : Bool) :
    nodePost c s obs d n below (.recur data) e =
      retTo c (nodeFinally c.P (storeIf (recSpawn s d n (.recur data)) e n (.recur data)) d n false)
        (obs ++ [.spawn s.tasks.length (.recur n)]) below .none := by
  simp [nodePost, Val.isRecur]

/-- re-execution needs a hide (C04), and only recurrent `_run_dag`s and the default fallback hide -/
theorem C11_reexecution_needs_hide (P : Program) (s : St) (h : Reach P s) (n : Node) (h0 : s.hideCount n = 0) :
    s.invCount n ≤ 1 := by
  have := (coreInv_reach h n).1
  simp only [St.core] at this
  omega

end MLPE.Eng

import MLPE.Proofs.Builder

/-!
# C16 — declarations the engine cannot execute are rejected at build time

`Builder.build` is the model of `build_dag` (worklist traversal from the output, per-node validators, the two
recurrent post-validations).  Quantification: every well-formed declaration set (class references are declared
classes), any number of nodes, any mix of marks, defects anywhere.

* every defect of the per-node validators at a node the output can reach — not a class, no node base, no callable
  `process`, no / missing annotations, an un-rebound generic input — makes `build` fail, no DAG is returned
  (`C16_defective_declaration_rejected`), with the specific error of a reachable defective node
  (`C16_error_is_specific`);
* a recurrent destination without the recurrent protocol and a recurrent start node without `additional_data`
  are rejected (`C16_recurrent_dest_needs_protocol`, `C16_recurrent_start_needs_additional_data`);
* a declaration set free of these defects builds (`C16_valid_declarations_build`).
How a Python object comes to lack a base class / `process` / an annotation is data of the model (`Decl`), produced
by the generator, not modelled.
-/
namespace MLPE.Builder

theorem build_ok_traverse {D : Decls} {b : Built} (h : build D = .ok b) :
    ∃ visited, traverse D (D.ds.length + 1) (({} : G).mapNode (D.id D.input) D.input) [D.output] [D.output]
      = .ok (b.g, visited) ∧ postValidate D b.g = none := by
  unfold build at h
  simp only [] at h
  split at h
  · simp at h
  · next g v ht =>
    split at h
    · simp at h
    · next hp =>
      simp at h
      subst h
      exact ⟨v, ht, hp⟩

/-- **every reachable defect is fatal**: if some node the output can reach fails a per-node validator, `build` does
not return a DAG -/
theorem C16_defective_declaration_rejected (D : Decls) (hwf : WF D) (c : Cls) (hr : Reachable D c)
    (hbad : ¬ NodeOk D c) : ∀ b, build D ≠ .ok b := by
  intro b hb
  obtain ⟨visited, ht, _⟩ := build_ok_traverse hb
  have := traverse_success D hwf _ _ _ _ _ _ (loopInv_init D hwf)
    (by intro x hx hn; simp at hx hn; exact absurd hx hn) ht (by simp)
  exact hbad (this.2 c (closed_contains_reachable D this.1 c hr))

/-- **the error is specific**: a failing `build` reports the validator error of a node the output can reach, or one
of the two recurrent post-validation errors -/
theorem C16_error_is_specific (D : Decls) (hwf : WF D) (e : BuildErr) (h : build D = .error e) :
    (∃ c, Reachable D c ∧ (validateNode (D.get c) = some e ∨ marksOf (D.get c) = .error e)) ∨
    e = .incorrectRecurrentMixin ∨ e = .incorrectParamsRecurrentNode := by
  unfold build at h
  simp only [] at h
  split at h
  · next e' ht =>
    simp at h; subst h
    exact Or.inl (traverse_error_is_reachable_defect D hwf _ _ _ _ _ (loopInv_init D hwf) ht)
  · next g v ht =>
    split at h
    · next e' hp =>
      simp at h; subst h
      right
      unfold postValidate at hp
      split at hp
      · simp at hp; exact Or.inl hp.symm
      · split at hp
        · simp at hp; exact Or.inr hp.symm
        · simp at hp
    · simp at h

/-- **every declaration set free of the defects builds** -/
theorem C16_valid_declarations_build (D : Decls) (hwf : WF D) (hok : ∀ c, Reachable D c → NodeOk D c)
    (hpost : ∀ g v, traverse D (D.ds.length + 1) (({} : G).mapNode (D.id D.input) D.input) [D.output] [D.output]
      = .ok (g, v) → postValidate D g = none) :
    ∃ b, build D = .ok b := by
  obtain ⟨g, v, ht, _⟩ := traverse_visits_reachable D hwf hok
  unfold build
  simp only [ht, hpost g v ht]
  exact ⟨_, rfl⟩

/-- equal ids name the same declaration (node ids are unique, which `get_node_id` + distinct `name`s give) -/
def IdsDetermine (D : Decls) : Prop := ∀ a b, D.id a = D.id b → D.get a = D.get b

/-- the class the node map resolves `D.id x` to is (a declaration equal to) `x` -/
theorem clsOf_correct (D : Decls) (hid : IdsDetermine D) (g : G) (hm : MapOK D g) (x : Cls) (hx : D.id x ∈ keysM g) :
    ∃ c, clsOf g (D.id x) = some c ∧ D.get c = D.get x := by
  unfold clsOf
  have hex : ∃ kc ∈ g.nodeMap, (kc.1 == D.id x) = true := by
    simp only [keysM, List.mem_map] at hx
    obtain ⟨kc, hkc, he⟩ := hx
    exact ⟨kc, hkc, by simp [he]⟩
  cases hf : g.nodeMap.find? (·.1 == D.id x) with
  | none =>
    obtain ⟨kc, hkc, he⟩ := hex
    exact absurd he (by simpa using List.find?_eq_none.mp hf kc hkc)
  | some kc =>
    refine ⟨kc.2, rfl, ?_⟩
    have hmem := List.mem_of_find?_eq_some hf
    have hkey := List.find?_some hf
    simp at hkey
    exact hid _ _ (by rw [← hm kc hmem, hkey])

/-- what a successful build knows about a reachable node carrying a recurrent mark -/
theorem rec_mark_recorded (D : Decls) (hwf : WF D) (hid : IdsDetermine D) (b : Built) (hb : build D = .ok b) (cur : Cls)
    (hr : Reachable D cur) (kw : String) (start dest mx : Nat)
    (hmark : (kw, Mark.recurrent start dest mx) ∈ (D.get cur).marks) :
    (D.id start, D.id dest) ∈ b.g.recs ∧ (∃ c, clsOf b.g (D.id dest) = some c ∧ D.get c = D.get dest) ∧
    MapOK D b.g ∧ postValidate D b.g = none ∧ ∀ x, Reachable D x → D.id x ∈ keysM b.g := by
  obtain ⟨visited, ht, hp⟩ := build_ok_traverse hb
  have hs := traverse_success D hwf _ _ _ _ _ _ (loopInv_init D hwf)
    (by intro x hx hn; simp at hx hn; exact absurd hx hn) ht (by simp)
  have hall := (traverse_contributes D hwf _ _ _ _ _ _ (loopInv_init D hwf)
    (by intro x hx hn; simp at hx hn; exact absurd hx hn) ht (by simp)).2
  have hmi := (hall cur (closed_contains_reachable D hs.1 cur hr)).marks _ hmark
  simp only [MarkIn] at hmi
  obtain ⟨_, hrec, hmapped⟩ := hmi
  have hmok : MapOK D b.g := traverse_mapOK D _ _ _ _ _ _
    (mapOK_mapNode D {} D.input (by intro kc h; simp at h)) ht
  exact ⟨hrec, clsOf_correct D hid b.g hmok dest hmapped, hmok, hp,
    fun x hx => (hall x (closed_contains_reachable D hs.1 x hx)).mapped⟩

/-- a `RecurrentSubGraph` whose destination lacks the recurrent protocol is rejected -/
theorem C16_recurrent_dest_needs_protocol (D : Decls) (hwf : WF D) (hid : IdsDetermine D) (cur : Cls)
    (hr : Reachable D cur) (kw : String) (start dest mx : Nat)
    (hmark : (kw, Mark.recurrent start dest mx) ∈ (D.get cur).marks) (hbad : (D.get dest).isRecurrent = false) :
    ∀ b, build D ≠ .ok b := by
  intro b hb
  obtain ⟨hrec, ⟨c, hfind, hget⟩, _, hp, _⟩ := rec_mark_recorded D hwf hid b hb cur hr kw start dest mx hmark
  have hany : b.g.recs.any (badDest D b.g) = true := by
    rw [List.any_eq_true]
    exact ⟨_, hrec, by simp [badDest, hfind, hget, hbad]⟩
  simp [postValidate, hany] at hp

/-- a recurrent start node (a declared class, reachable from the output) without an `additional_data` parameter is
rejected -/
theorem C16_recurrent_start_needs_additional_data (D : Decls) (hwf : WF D) (hid : IdsDetermine D) (cur : Cls)
    (hr : Reachable D cur) (kw : String) (start dest mx : Nat)
    (hmark : (kw, Mark.recurrent start dest mx) ∈ (D.get cur).marks) (hstart : Reachable D start)
    (hbad : (D.get start).hasAdditional = false) (b : Built) (hb : build D = .ok b) :
    b.g.synth.contains (D.id start) = true ∨ b.g.synth.contains (D.id dest) = true := by
  obtain ⟨hrec, _, hmok, hp, hmapped⟩ := rec_mark_recorded D hwf hid b hb cur hr kw start dest mx hmark
  obtain ⟨c, hfind, hget⟩ := clsOf_correct D hid b.g hmok start (hmapped start hstart)
  by_cases hsyn : (b.g.synth.contains (D.id start) || b.g.synth.contains (D.id dest)) = true
  · simpa using hsyn
  · exfalso
    have hany : b.g.recs.any (badStart D b.g) = true := by
      rw [List.any_eq_true]
      have hs2 : (b.g.synth.contains (D.id start) || b.g.synth.contains (D.id dest)) = false := by
        simpa using hsyn
      exact ⟨_, hrec, by simp only [badStart, hs2]; simp [hfind, hget, hbad]⟩
    unfold postValidate at hp
    split at hp
    all_goals (first | (cases hp) | (simp [hany] at hp))

/-! Non-vacuity: a three-node declaration set with an un-annotated parameter behind an `Input` mark is rejected with
the specific error, and the repaired set builds. -/
def demo (bad : Bool) : Decls :=
  { ds := [{ ident := "processor__N0", marks := [] },
           { ident := "processor__N1", marks := [("a", .input 0)], unannotated := if bad then some "z" else none },
           { ident := "processor__N2", marks := [("a", .input 1)] }], input := 0, output := 2 }

example : (match build (demo true) with | .error e => decide (e = .undefinedParamAnnotation) | .ok _ => false) = true := by
  decide

example : (match build (demo false) with | .ok b => decide (b.g.nodeMap.length = 3) | .error _ => false) = true := by
  decide

end MLPE.Builder

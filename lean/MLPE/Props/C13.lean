import MLPE.Proofs.EngTasks

/-!
# C13 — nothing is left running after a run ends or is cancelled

Theorems about the engine model, for every program and every state (no reachability hypothesis is
needed: they are facts about single sections).

* when `manager.run` leaves (normally, with an error, or because the caller was cancelled while it
  waited) its `finally` has requested the cancellation of every task the run created that is not
  finished (`C13_finish_marks_every_task`, `C13_cancel_marks_every_task`);
* the next section of a task whose cancellation was requested ends that task, and does nothing else
  that can be observed: no node body, event callback, artifact save or new task
  (`C13_cancelled_task_ends_silently`); it cannot un-mark another task (`C13_marks_are_stable`);
* cancelling the caller surfaces as `CancelledError` and nothing else (`C13_caller_sees_cancelled_only`).
Hence after the end every remaining task finishes in exactly one more section each.

Global form (end of the file, all programs): `C13_after_cleanup_others_marked` (the state `manager.run` leaves behind has
every other task finished or cancel-marked), `C13_after_cleanup_nothing_starts` (from such a state every step of anybody
but the caller creates no task and reports only endings — also while `on_pipeline_complete` is still suspended),
`C13_after_return_nothing_ever_starts` (once the caller's task has ended as well, this holds for every continuation of
any length).
Not carried by the model: a body already running in a real thread / process cannot be interrupted.
-/
namespace MLPE.Eng
open MLPE

/-- entries of other tasks are not touched by `setTask t` -/
theorem getElem?_setTask_ne (s : St) (t i : Nat) (tk : Task) (h : i ≠ t) :
    (s.setTask t tk).tasks[i]? = s.tasks[i]? := by
  simp [St.setTask, List.getElem?_set_ne (Ne.symm h)]

theorem others_endTask (c : Ctx) (s : St) (obs : List Obs) (r : TaskRes) (i : Nat) (h : i ≠ c.t) :
    (endTask c s obs r).1.tasks[i]? = s.tasks[i]? := by
  unfold endTask; split
  · rfl
  · exact getElem?_setTask_ne _ _ _ _ h

theorem others_yieldNow (c : Ctx) (s : St) (obs : List Obs) (fs : List Frame) (i : Nat) (h : i ≠ c.t) :
    (yieldNow c s obs fs).1.tasks[i]? = s.tasks[i]? := by
  unfold yieldNow; split
  · rfl
  · exact getElem?_setTask_ne _ _ _ _ h

theorem others_mgrReturn (c : Ctx) (s : St) (obs : List Obs) (o : Outcome) (i : Nat) (h : i ≠ c.t) :
    (mgrReturn c s obs o).1.tasks[i]? = s.tasks[i]? := by
  simp only [mgrReturn, St.setOutcome]
  exact others_endTask _ _ _ _ _ h

theorem others_mgrComplete (c : Ctx) (s : St) (obs : List Obs) (o : Outcome) (i : Nat) (h : i ≠ c.t) :
    (mgrComplete c s obs o).1.tasks[i]? = s.tasks[i]? := by
  unfold mgrComplete
  split
  · exact others_mgrReturn _ _ _ _ _ h
  · unfold cbCall
    split
    · exact others_mgrReturn _ _ _ _ _ h
    · unfold cbThen
      split
      · exact others_mgrReturn _ _ _ _ _ h
      · exact others_yieldNow _ _ _ _ _ h

/-- `_stop_coro_tasks(*self._coro_tasks)`: every task except the one running the cleanup is marked afterwards -/
theorem C13_cleanup_marks_every_task (s : St) (t i : Nat) (tk : Task) (h : s.tasks[i]? = some tk) (hne : i ≠ t) :
    ∃ tk', (cancelTasks s (liveTasks s t)).tasks[i]? = some tk' ∧ tk'.marked = true :=
  marked_cancelTasks _ s i tk h (Or.inl (mem_liveTasks s t i (getElem?_lt h) hne))

/-- **normal / error end**: once `manager.run`'s predicate is true and it leaves through `finally`, every
other task is finished or has its cancellation requested — also while `on_pipeline_complete` is still suspended -/
theorem C13_finish_marks_every_task (c : Ctx) (s : St) (obs : List Obs) (i : Nat) (tk : Task)
    (h : s.tasks[i]? = some tk) (hne : i ≠ c.t) :
    ∃ tk', (mgrFinish c s obs).1.tasks[i]? = some tk' ∧ tk'.marked = true := by
  unfold mgrFinish
  rw [others_mgrComplete _ _ _ _ _ hne]
  exact C13_cleanup_marks_every_task s c.t i tk h hne

/-- **caller cancelled while `manager.run` waits**: the same cleanup runs, and the caller sees `CancelledError` -/
theorem C13_cancel_marks_every_task (c : Ctx) (s : St) (tk0 : Task) (h0 : tk0.frames = [.mgrWait])
    (i : Nat) (tk : Task) (h : s.tasks[i]? = some tk) (hne : i ≠ c.t) :
    ∃ tk', (deliverCancel c s tk0).1.tasks[i]? = some tk' ∧ tk'.marked = true := by
  unfold deliverCancel
  simp only [h0, St.setOutcome]
  rw [others_endTask _ _ _ _ _ hne]
  exact C13_cleanup_marks_every_task s c.t i tk h hne

/-- cancelling the caller at any of its suspension points surfaces as `CancelledError` only -/
theorem C13_caller_sees_cancelled_only (c : Ctx) (s : St) (tk0 : Task)
    (h0 : tk0.frames = [.mgrStart] ∨ tk0.frames = [.mgrWait] ∨ (∃ j, tk0.frames = [.mgrCbStart j]) ∨
          (∃ j o, tk0.frames = [.mgrCbComplete j o])) :
    (deliverCancel c s tk0).1.outcome = some .cancelled := by
  unfold deliverCancel
  rcases h0 with h | h | ⟨j, h⟩ | ⟨j, o, h⟩ <;> simp [h, St.setOutcome]

/-- a frame stack that belongs to `chart.run` itself (only the caller's task ever has one) -/
def isCallerFrames : List Frame → Bool
  | [.mgrStart] => true
  | [.mgrWait] => true
  | [.mgrCbStart _] => true
  | [.mgrCbComplete _ _] => true
  | _ => false

/-- **a cancelled engine task ends silently in one section**: whatever it was doing, its next section
unwinds its frames (only notifications and the node's event are touched), ends the task as cancelled, emits
nothing but its own `done`, and creates no task -/
theorem C13_cancelled_task_ends_silently (c : Ctx) (s : St) (tk : Task) (rv : Resume)
    (h : s.tasks[c.t]? = some tk) (hst : tk.st = .runnable rv) (hm : tk.mustCancel = true)
    (hf : isCallerFrames tk.frames = false) :
    stepTask c s = some (endTask c (unwindFrames c.P s tk.frames) [] .cancelled) ∧
    (endTask c (unwindFrames c.P s tk.frames) [] .cancelled).2 = [.done c.t .cancelled] ∧
    (endTask c (unwindFrames c.P s tk.frames) [] .cancelled).1.tasks.length = s.tasks.length := by
  have hlen : ∀ fs (s0 : St), (unwindFrames c.P s0 fs).tasks.length = s0.tasks.length := by
    intro fs
    induction fs with
    | nil => intro s0; rfl
    | cons f fs ih =>
      intro s0
      cases f <;> simp only [unwindFrames, ih]
      split
      · rfl
      · simp only [nodeFinally]
        split
        · simp
        · simp
  have hget : ∃ tk', (unwindFrames c.P s tk.frames).tasks[c.t]? = some tk' := by
    have : c.t < (unwindFrames c.P s tk.frames).tasks.length := by rw [hlen]; exact getElem?_lt h
    exact ⟨_, List.getElem?_eq_getElem this⟩
  obtain ⟨tk', hk'⟩ := hget
  refine ⟨?_, ?_, ?_⟩
  · unfold stepTask
    simp only [h, hst, hm, if_true]
    unfold deliverCancel
    cases hfr : tk.frames with
    | nil => simp [raiseOut]
    | cons f fs =>
      cases fs with
      | nil => cases f <;> simp_all [isCallerFrames, raiseOut]
      | cons g gs => simp [raiseOut]
  · simp [endTask, hk']
  · simp [endTask, hk', hlen]

/-- marks are stable: neither notifications, nor setting an event, nor another cancellation removes a mark -/
theorem C13_marks_are_stable (P : Program) (s : St) (fs : List Frame) (i : Nat) :
    ((unwindFrames P s fs).tasks[i]?).map Task.marked = (s.tasks[i]?).map Task.marked := by
  induction fs generalizing s with
  | nil => rfl
  | cons f fs ih =>
    cases f <;> simp only [unwindFrames, ih]
    split
    · rfl
    · simp only [nodeFinally]
      split
      · rw [marked_notify, marked_setEvent]
      · rw [marked_notify, marked_notify, marked_notifyAll, marked_setEvent]

/-! Non-vacuity: a blocked, unfinished task that `run()`'s cleanup reaches becomes runnable and marked. -/
example :
    let tk : Task := { frames := [.dagWaitDest ⟨0, some 1, [0, 1], false, false, false⟩], st := .blocked (.cond (.node 1)) }
    (cancelled tk).marked = true ∧ (cancelled tk).st = .runnable .go := by
  decide

/-! ### After the end, globally (all programs, all continuations) -/

/-- every task of the run with an index in `I` is finished or has its cancellation requested -/
def MarkedOn (I : Nat → Prop) (s : St) : Prop := ∀ (i : Nat) (tk : Task), I i → s.tasks[i]? = some tk → tk.marked = true

/-- every task of the run is finished or has its cancellation requested -/
def AllMarked (s : St) : Prop := MarkedOn (fun _ => True) s

/-- observations that only report an ending -/
def Obs.isEnding : Obs → Bool
  | .done .. => true
  | .returned .. => true
  | _ => false

theorem allMarked_of_map {I : Nat → Prop} {s s' : St} (h : MarkedOn I s)
    (hm : ∀ i : Nat, (s'.tasks[i]?).map Task.marked = (s.tasks[i]?).map Task.marked) : MarkedOn I s' := by
  intro i tk hI hi
  have := hm i
  rw [hi] at this
  cases hs : s.tasks[i]? with
  | none => simp [hs] at this
  | some tk0 =>
    simp only [hs, Option.map_some, Option.some.injEq] at this
    rw [this]; exact h i tk0 hI hs

theorem allMarked_setTask_marked {I : Nat → Prop} {s : St} (h : MarkedOn I s) (t : Nat) (tk' : Task)
    (hm : tk'.marked = true) : MarkedOn I (s.setTask t tk') := by
  intro i tk hI hi
  by_cases hit : i = t
  · subst hit
    simp only [St.setTask] at hi
    by_cases hlt : i < s.tasks.length
    · rw [List.getElem?_set_self hlt] at hi; cases hi; exact hm
    · rw [List.getElem?_eq_none (by simp; omega)] at hi; cases hi
  · rw [getElem?_setTask_ne _ _ _ _ hit] at hi
    exact h i tk hI hi

theorem markedOn_setTask_outside {I : Nat → Prop} {s : St} (h : MarkedOn I s) (t : Nat) (tk' : Task) (ht : ¬ I t) :
    MarkedOn I (s.setTask t tk') := by
  intro i tk hI hi
  have hit : i ≠ t := fun e => ht (e ▸ hI)
  rw [getElem?_setTask_ne _ _ _ _ hit] at hi
  exact h i tk hI hi

theorem allMarked_endTask {I : Nat → Prop} {s : St} (h : MarkedOn I s) (c : Ctx) (obs : List Obs) (r : TaskRes) :
    MarkedOn I (endTask c s obs r).1 ∧ (endTask c s obs r).1.tasks.length = s.tasks.length ∧
    (∀ o ∈ (endTask c s obs r).2, o ∈ obs ∨ o.isEnding = true) := by
  unfold endTask
  split
  · exact ⟨h, rfl, fun o ho => Or.inl ho⟩
  · refine ⟨allMarked_setTask_marked h _ _ (by simp [Task.marked, Task.isDone]), by simp, ?_⟩
    intro o ho
    simp only [List.mem_append, List.mem_singleton] at ho
    rcases ho with ho | rfl
    · exact Or.inl ho
    · exact Or.inr rfl

theorem len_unwindFrames (P : Program) : ∀ (fs : List Frame) (s : St), (unwindFrames P s fs).tasks.length = s.tasks.length := by
  intro fs
  induction fs with
  | nil => intro s; rfl
  | cons f fs ih =>
    intro s
    cases f <;> simp only [unwindFrames, ih]
    split
    · rfl
    · simp only [nodeFinally]
      split
      · simp
      · simp

theorem allMarked_cancelTasks {I : Nat → Prop} {s : St} (h : MarkedOn I s) (ts : List Nat) :
    MarkedOn I (cancelTasks s ts) := by
  intro i tk hI hi
  have hlt : i < s.tasks.length := by
    have := getElem?_lt hi; simpa using this
  obtain ⟨tk', h1, h2⟩ := marked_cancelTasks ts s i s.tasks[i] (by simp [hlt]) (Or.inr (h i _ hI (by simp [hlt])))
  rw [hi] at h1; cases h1; exact h2

/-- **after the end** (all programs): in a state in which every task is finished or cancel-marked — the state
`manager.run`'s cleanup leaves behind — every further step keeps it so, creates no task, and reports nothing but task
endings: no node body, event callback, artifact save, default, retry sleep, new DAG or new task is started -/
theorem markedOn_step (P : Program) (I : Nat → Prop) (s : St) (h : MarkedOn I s) (ch : Choice) (out : Out)
    (hs : step P s ch = some out) (hI : ∀ t ord pick, ch = .run t ord pick → I t) :
    MarkedOn I out.1 ∧ out.1.tasks.length = s.tasks.length ∧ ∀ o ∈ out.2, o.isEnding = true := by
  cases ch with
  | gate n inv att =>
    simp only [step] at hs
    split at hs
    · cases hs
    · obtain rfl := Option.some.inj hs
      refine ⟨?_, by simp, by simp⟩
      apply allMarked_of_map h
      intro i
      apply marked_map
      intro tk
      unfold gateDone
      split
      · split
        · simp [Task.marked, Task.isDone, *]
        · rfl
      · rfl
  | timer t =>
    simp only [step] at hs
    split at hs
    · next tk htk =>
      split at hs
      · next hst =>
        obtain rfl := Option.some.inj hs
        refine ⟨?_, by simp, by simp⟩
        by_cases hIt : I t
        · refine allMarked_setTask_marked h _ _ ?_
          have := h t tk hIt htk
          simp only [Task.marked, Task.isDone, hst, Bool.false_or] at this
          simp [Task.marked, Task.isDone, this]
        · exact markedOn_setTask_outside h _ _ hIt
      · cases hs
    · cases hs
  | cancelCaller =>
    simp only [step] at hs
    obtain rfl := Option.some.inj hs
    refine ⟨?_, by simp, by simp⟩
    have := allMarked_cancelTasks h [0]
    simpa [cancelTasks] using this
  | run t ord pick =>
    simp only [step, stepTask] at hs
    split at hs
    · cases hs
    · next tk htk =>
      split at hs
      · next rv hst =>
        have hm := h t tk (hI t ord pick rfl) htk
        simp only [Task.marked, Task.isDone, hst, Bool.false_or] at hm
        simp only [hm, if_true] at hs
        obtain rfl := Option.some.inj hs
        -- the pending cancellation is delivered
        unfold deliverCancel
        have caller : ∀ (s0 : St), MarkedOn I s0 → s0.tasks.length = s.tasks.length →
            MarkedOn I ((endTask { P := P, t := t, ord := ord, pick := pick } s0 [.returned .cancelled] .cancelled).1.setOutcome .cancelled) ∧
            ((endTask { P := P, t := t, ord := ord, pick := pick } s0 [.returned .cancelled] .cancelled).1.setOutcome .cancelled).tasks.length = s.tasks.length ∧
            ∀ o ∈ (endTask { P := P, t := t, ord := ord, pick := pick } s0 [.returned .cancelled] .cancelled).2, o.isEnding = true := by
          intro s0 h0 hl
          obtain ⟨a, b, c⟩ := allMarked_endTask h0 { P := P, t := t, ord := ord, pick := pick } [.returned .cancelled] .cancelled
          refine ⟨a, by simp only [St.setOutcome]; rw [b, hl], ?_⟩
          intro o ho
          rcases c o ho with h1 | h1
          · simp at h1; subst h1; rfl
          · exact h1
        split
        · exact caller s h rfl
        · exact caller s h rfl
        · exact caller _ (allMarked_cancelTasks h _) (by simp)
        · exact caller s h rfl
        · simp only [raiseOut]
          have hu : MarkedOn I (unwindFrames P s tk.frames) :=
            allMarked_of_map h (fun i => C13_marks_are_stable P s tk.frames i)
          obtain ⟨a, b, c⟩ := allMarked_endTask hu { P := P, t := t, ord := ord, pick := pick } [] .cancelled
          refine ⟨a, by rw [b, len_unwindFrames], ?_⟩
          intro o ho
          rcases c o ho with h1 | h1
          · simp at h1
          · exact h1
      · cases hs

/-- the same for all tasks -/
theorem allMarked_step (P : Program) (s : St) (h : AllMarked s) (ch : Choice) (out : Out)
    (hs : step P s ch = some out) :
    AllMarked out.1 ∧ out.1.tasks.length = s.tasks.length ∧ ∀ o ∈ out.2, o.isEnding = true :=
  markedOn_step P (fun _ => True) s h ch out hs (fun _ _ _ _ => trivial)

/-- run a list of choices, collecting the observations -/
def runObs (P : Program) : St → List Choice → Option (St × List Obs)
  | s, [] => some (s, [])
  | s, c :: cs => match step P s c with
    | some (s', obs) => (runObs P s' cs).map (fun r => (r.1, obs ++ r.2))
    | none => none

theorem allMarked_run (P : Program) : ∀ (cs : List Choice) (s s' : St) (obs : List Obs), AllMarked s →
    runObs P s cs = some (s', obs) →
    AllMarked s' ∧ s'.tasks.length = s.tasks.length ∧ ∀ o ∈ obs, o.isEnding = true
  | [], s, s', obs, h, hr => by
    simp only [runObs, Option.some.injEq, Prod.mk.injEq] at hr
    obtain ⟨rfl, rfl⟩ := hr
    exact ⟨h, rfl, by simp⟩
  | c :: cs, s, s', obs, h, hr => by
    simp only [runObs] at hr
    split at hr
    · next s1 obs1 hs =>
      obtain ⟨a, b, d⟩ := allMarked_step P s h c (s1, obs1) hs
      cases hr2 : runObs P s1 cs with
      | none => simp [hr2] at hr
      | some r =>
        simp only [hr2, Option.map_some, Option.some.injEq, Prod.mk.injEq] at hr
        obtain ⟨rfl, rfl⟩ := hr
        obtain ⟨a', b', d'⟩ := allMarked_run P cs s1 r.1 r.2 a (by rw [hr2])
        refine ⟨a', by rw [b', b], ?_⟩
        intro o ho
        rcases List.mem_append.mp ho with h1 | h1
        · exact d o h1
        · exact d' o h1
    · cases hr


theorem len_mgrFinish (c : Ctx) (s : St) (obs : List Obs) : (mgrFinish c s obs).1.tasks.length = s.tasks.length := by
  unfold mgrFinish
  have hr : ∀ s' obs' o', (mgrReturn c s' obs' o').1.tasks.length = s'.tasks.length := by
    intro s' obs' o'; simp only [mgrReturn, St.setOutcome, endTask]; split <;> simp
  have hc : ∀ s' obs' o', (mgrComplete c s' obs' o').1.tasks.length = s'.tasks.length := by
    intro s' obs' o'
    unfold mgrComplete
    split
    · exact hr _ _ _
    · unfold cbCall
      split
      · exact hr _ _ _
      · unfold cbThen
        split
        · exact hr _ _ _
        · simp only [yieldNow]; split <;> simp
  rw [hc]; simp

/-- **when `manager.run` leaves** (value or error): every task other than the caller's is finished or cancel-marked in
the resulting state — the precondition of `markedOn_step` -/
theorem C13_after_cleanup_others_marked (c : Ctx) (s : St) (obs : List Obs) :
    MarkedOn (fun i => i ≠ c.t) (mgrFinish c s obs).1 := by
  intro i tk hne hi
  have hlt : i < s.tasks.length := by
    have := getElem?_lt hi
    rw [len_mgrFinish] at this; exact this
  obtain ⟨tk', h1, h2⟩ := C13_finish_marks_every_task c s obs i s.tasks[i] (by simp [hlt]) hne
  rw [hi] at h1; cases h1; exact h2

/-- **from then on** (all programs): whatever the other tasks, the outstanding bodies, timers and the canceller do next,
no task is created and nothing but task endings is observed; the caller's own remaining sections are the return from
`on_pipeline_complete` -/
theorem C13_after_cleanup_nothing_starts (P : Program) (t : Nat) (s : St) (h : MarkedOn (fun i => i ≠ t) s)
    (ch : Choice) (out : Out) (hs : step P s ch = some out) (hne : ∀ ord pick, ch ≠ .run t ord pick) :
    MarkedOn (fun i => i ≠ t) out.1 ∧ out.1.tasks.length = s.tasks.length ∧ ∀ o ∈ out.2, o.isEnding = true :=
  markedOn_step P _ s h ch out hs (fun t' ord pick he hte => hne ord pick (by rw [he, hte]))

/-- **once the caller's task has ended too**, any continuation whatsoever (any number of steps) observes only task
endings and creates nothing -/
theorem C13_after_return_nothing_ever_starts (P : Program) (cs : List Choice) (s s' : St) (obs : List Obs)
    (h : AllMarked s) (hr : runObs P s cs = some (s', obs)) :
    AllMarked s' ∧ s'.tasks.length = s.tasks.length ∧ ∀ o ∈ obs, o.isEnding = true :=
  allMarked_run P cs s s' obs h hr


/-! ### A bounded drain (all programs): after the end every task runs at most one more section -/

/-- a finished task is never stepped again (every program, every state) -/
theorem C13_finished_task_is_never_stepped (P : Program) (s : St) (t : Nat) (tk : Task) (ord : List Node) (pick : Nat)
    (h : s.tasks[t]? = some tk) (hd : tk.isDone = true) : step P s (.run t ord pick) = none := by
  simp only [step, stepTask, h]
  cases hst : tk.st with
  | done r => rfl
  | runnable rv => simp [Task.isDone, hst] at hd
  | blocked w => simp [Task.isDone, hst] at hd

theorem isDone_map (l : List Task) (f : Task → Task) (hf : ∀ tk, (f tk).isDone = tk.isDone) (i : Nat) :
    ((l.map f)[i]?).map Task.isDone = (l[i]?).map Task.isDone := by
  simp only [List.getElem?_map, Option.map_map]
  cases l[i]? <;> simp [hf]

theorem isDone_notify (s : St) (k : Key) (i : Nat) :
    ((notify s k).tasks[i]?).map Task.isDone = (s.tasks[i]?).map Task.isDone :=
  isDone_map _ _ (fun tk => wakeIf_isDone _ tk) i

theorem isDone_setEvent (s : St) (n : Node) (i : Nat) :
    ((setEvent s n).tasks[i]?).map Task.isDone = (s.tasks[i]?).map Task.isDone :=
  isDone_map _ _ (fun tk => wakeIf_isDone _ tk) i

theorem isDone_notifyAll (s : St) (ks : List Key) (i : Nat) :
    ((notifyAll s ks).tasks[i]?).map Task.isDone = (s.tasks[i]?).map Task.isDone := by
  induction ks generalizing s with
  | nil => rfl
  | cons k ks ih => simp only [notifyAll, List.foldl_cons]; rw [← isDone_notify s k i]; exact ih _

theorem isDone_unwindFrames (P : Program) (s : St) (fs : List Frame) (i : Nat) :
    ((unwindFrames P s fs).tasks[i]?).map Task.isDone = (s.tasks[i]?).map Task.isDone := by
  induction fs generalizing s with
  | nil => rfl
  | cons f fs ih =>
    cases f <;> simp only [unwindFrames, ih]
    split
    · rfl
    · simp only [nodeFinally]
      split
      · rw [isDone_notify, isDone_setEvent]
      · rw [isDone_notify, isDone_notify, isDone_notifyAll, isDone_setEvent]

theorem isDone_cancelled (tk : Task) : (cancelled tk).isDone = tk.isDone := by
  unfold cancelled Task.isDone
  cases h : tk.st <;> simp [h]

theorem isDone_cancelTask (s : St) (t i : Nat) :
    ((cancelTask s t).tasks[i]?).map Task.isDone = (s.tasks[i]?).map Task.isDone := by
  rw [cancelTask_tasks]
  cases h : s.tasks[t]? with
  | none => rfl
  | some tk =>
    simp only []
    by_cases hit : i = t
    · subst hit
      have hlt : i < s.tasks.length := getElem?_lt h
      rw [List.getElem?_set_self hlt, h]
      simp [isDone_cancelled]
    · rw [List.getElem?_set_ne (Ne.symm hit)]

theorem isDone_cancelTasks (ts : List Nat) : ∀ (s : St) (i : Nat),
    ((cancelTasks s ts).tasks[i]?).map Task.isDone = (s.tasks[i]?).map Task.isDone := by
  induction ts with
  | nil => intro s i; rfl
  | cons t ts ih => intro s i; simp only [cancelTasks, List.foldl_cons]; rw [← isDone_cancelTask s t i]; exact ih _ _

/-- `endTask` finishes the current task and leaves the others as they are -/
theorem endTask_done (c : Ctx) (s : St) (obs : List Obs) (r : TaskRes) (tk : Task) (h : s.tasks[c.t]? = some tk) :
    (∃ tk' : Task, (endTask c s obs r).1.tasks[c.t]? = some tk' ∧ tk'.isDone = true) ∧
    ∀ i, i ≠ c.t → (endTask c s obs r).1.tasks[i]? = s.tasks[i]? := by
  have hlt : c.t < s.tasks.length := getElem?_lt h
  simp only [endTask, h]
  refine ⟨⟨{ tk with frames := [], st := .done r, mustCancel := false }, ?_, by simp [Task.isDone]⟩, ?_⟩
  · simp only [St.setTask]; rw [List.getElem?_set_self hlt]
  · intro i hi
    simp only [St.setTask]; rw [List.getElem?_set_ne (Ne.symm hi)]

/-- **after the end, a section finishes its task** (all programs): in a state in which every task is finished or
cancel-marked, the section of task `t` ends `t`, and every task that was finished stays finished -/
theorem C13_section_after_the_end_finishes_its_task (P : Program) (s : St) (h : AllMarked s) (t : Nat) (ord : List Node)
    (pick : Nat) (out : Out) (hs : step P s (.run t ord pick) = some out) :
    (∃ tk' : Task, out.1.tasks[t]? = some tk' ∧ tk'.isDone = true) ∧
    (∀ (i : Nat) (tk : Task), s.tasks[i]? = some tk → tk.isDone = true →
      ∃ tk' : Task, out.1.tasks[i]? = some tk' ∧ tk'.isDone = true) := by
  simp only [step, stepTask] at hs
  split at hs
  · cases hs
  · next tk htk =>
    split at hs
    · next rv hst =>
      have hm := h t tk trivial htk
      simp only [Task.marked, Task.isDone, hst, Bool.false_or] at hm
      simp only [hm, if_true] at hs
      obtain rfl := Option.some.inj hs
      -- every way `deliverCancel` ends: endTask on a state whose tasks are `s`'s up to wake-ups and cancellations
      have key : ∀ (s0 : St) (obs0 : List Obs), (∀ i : Nat, (s0.tasks[i]?).map Task.isDone = (s.tasks[i]?).map Task.isDone) →
          ∀ (fin : St → St), (∀ x, (fin x).tasks = x.tasks) →
          (∃ tk' : Task, (fin (endTask { P := P, t := t, ord := ord, pick := pick } s0 obs0 .cancelled).1).tasks[t]? = some tk' ∧
            tk'.isDone = true) ∧
          (∀ (i : Nat) (tk0 : Task), s.tasks[i]? = some tk0 → tk0.isDone = true →
            ∃ tk' : Task, (fin (endTask { P := P, t := t, ord := ord, pick := pick } s0 obs0 .cancelled).1).tasks[i]? = some tk' ∧
              tk'.isDone = true) := by
        intro s0 obs0 hsame fin hfin
        have h0 : ∃ tk0, s0.tasks[t]? = some tk0 := by
          have := hsame t
          rw [htk] at this
          cases hx : s0.tasks[t]? with
          | none => simp [hx] at this
          | some x => exact ⟨x, rfl⟩
        obtain ⟨tk0, htk0⟩ := h0
        obtain ⟨a, b⟩ := endTask_done { P := P, t := t, ord := ord, pick := pick } s0 obs0 .cancelled tk0 htk0
        rw [hfin]
        refine ⟨a, ?_⟩
        intro i tki hi hdi
        by_cases hit : i = t
        · subst hit; exact a
        · rw [b i hit]
          have := hsame i
          rw [hi] at this
          cases hx : s0.tasks[i]? with
          | none => simp [hx] at this
          | some x =>
            simp only [hx, Option.map_some, Option.some.injEq] at this
            exact ⟨x, rfl, by rw [this]; exact hdi⟩
      unfold deliverCancel
      split
      · exact key s _ (fun _ => rfl) (fun x => x.setOutcome .cancelled) (fun _ => rfl)
      · exact key s _ (fun _ => rfl) (fun x => x.setOutcome .cancelled) (fun _ => rfl)
      · exact key _ _ (fun i => isDone_cancelTasks _ _ i) (fun x => x.setOutcome .cancelled) (fun _ => rfl)
      · exact key s _ (fun _ => rfl) (fun x => x.setOutcome .cancelled) (fun _ => rfl)
      · simp only [raiseOut]
        exact key _ _ (fun i => isDone_unwindFrames P s tk.frames i) id (fun _ => rfl)
    · cases hs


end MLPE.Eng

import MLPE.Proofs.EngTasks

/-!
# C13 — nothing is left running after a run ends or is cancelled

Theorems about the engine model, for every program and every state (no reachability hypothesis is
needed: they are facts about single sections).

* when `manager.run` leaves (normally, with an error, or because the caller was cancelled while it
  waited) its `finally` has requested the cancellation of every task the run created that is not
  finished (`C13_finish_marks_every_task`, `C13_cancel_marks_every_task`);
* the next section of a task whose cancellation was requested ends that task, and does nothing else
  that can be observed: no node body, event callback, artifact save or new task
  (`C13_cancelled_task_ends_silently`); it cannot un-mark another task (`C13_marks_are_stable`);
* cancelling the caller surfaces as `CancelledError` and nothing else (`C13_caller_sees_cancelled_only`).
Hence after the end every remaining task finishes in exactly one more section each.
Not carried by the model: a body already running in a real thread / process cannot be interrupted.
-/
namespace MLPE.Eng
open MLPE

/-- entries of other tasks are not touched by `setTask t` -/
theorem getElem?_setTask_ne (s : St) (t i : Nat) (tk : Task) (h : i ≠ t) :
    (s.setTask t tk).tasks[i]? = s.tasks[i]? := by
  simp [St.setTask, List.getElem?_set_ne (Ne.symm h)]

theorem others_endTask (c : Ctx) (s : St) (obs : List Obs) (r : TaskRes) (i : Nat) (h : i ≠ c.t) :
    (endTask c s obs r).1.tasks[i]? = s.tasks[i]? := by
  unfold endTask; split
  · rfl
  · exact getElem?_setTask_ne _ _ _ _ h

theorem others_yieldNow (c : Ctx) (s : St) (obs : List Obs) (fs : List Frame) (i : Nat) (h : i ≠ c.t) :
    (yieldNow c s obs fs).1.tasks[i]? = s.tasks[i]? := by
  unfold yieldNow; split
  · rfl
  · exact getElem?_setTask_ne _ _ _ _ h

theorem others_mgrReturn (c : Ctx) (s : St) (obs : List Obs) (o : Outcome) (i : Nat) (h : i ≠ c.t) :
    (mgrReturn c s obs o).1.tasks[i]? = s.tasks[i]? := by
  simp only [mgrReturn, St.setOutcome]
  exact others_endTask _ _ _ _ _ h

theorem others_mgrComplete (c : Ctx) (s : St) (obs : List Obs) (o : Outcome) (i : Nat) (h : i ≠ c.t) :
    (mgrComplete c s obs o).1.tasks[i]? = s.tasks[i]? := by
  unfold mgrComplete
  split
  · exact others_mgrReturn _ _ _ _ _ h
  · unfold cbCall
    split
    · exact others_mgrReturn _ _ _ _ _ h
    · unfold cbThen
      split
      · exact others_mgrReturn _ _ _ _ _ h
      · exact others_yieldNow _ _ _ _ _ h

/-- `_stop_coro_tasks(*self._coro_tasks)`: every task except the one running the cleanup is marked afterwards -/
theorem C13_cleanup_marks_every_task (s : St) (t i : Nat) (tk : Task) (h : s.tasks[i]? = some tk) (hne : i ≠ t) :
    ∃ tk', (cancelTasks s (liveTasks s t)).tasks[i]? = some tk' ∧ tk'.marked = true :=
  marked_cancelTasks _ s i tk h (Or.inl (mem_liveTasks s t i (getElem?_lt h) hne))

/-- **normal / error end**: once `manager.run`'s predicate is true and it leaves through `finally`, every
other task is finished or has its cancellation requested — also while `on_pipeline_complete` is still suspended -/
theorem C13_finish_marks_every_task (c : Ctx) (s : St) (obs : List Obs) (i : Nat) (tk : Task)
    (h : s.tasks[i]? = some tk) (hne : i ≠ c.t) :
    ∃ tk', (mgrFinish c s obs).1.tasks[i]? = some tk' ∧ tk'.marked = true := by
  unfold mgrFinish
  simp only []
  rw [others_mgrComplete _ _ _ _ _ hne]
  exact C13_cleanup_marks_every_task s c.t i tk h hne

/-- **caller cancelled while `manager.run` waits**: the same cleanup runs, and the caller sees `CancelledError` -/
theorem C13_cancel_marks_every_task (c : Ctx) (s : St) (tk0 : Task) (h0 : tk0.frames = [.mgrWait])
    (i : Nat) (tk : Task) (h : s.tasks[i]? = some tk) (hne : i ≠ c.t) :
    ∃ tk', (deliverCancel c s tk0).1.tasks[i]? = some tk' ∧ tk'.marked = true := by
  unfold deliverCancel
  simp only [h0, St.setOutcome]
  rw [others_endTask _ _ _ _ _ hne]
  exact C13_cleanup_marks_every_task s c.t i tk h hne

/-- cancelling the caller at any of its suspension points surfaces as `CancelledError` only -/
theorem C13_caller_sees_cancelled_only (c : Ctx) (s : St) (tk0 : Task)
    (h0 : tk0.frames = [.mgrStart] ∨ tk0.frames = [.mgrWait] ∨ (∃ j, tk0.frames = [.mgrCbStart j]) ∨
          (∃ j o, tk0.frames = [.mgrCbComplete j o])) :
    (deliverCancel c s tk0).1.outcome = some .cancelled := by
  unfold deliverCancel
  rcases h0 with h | h | ⟨j, h⟩ | ⟨j, o, h⟩ <;> simp [h, St.setOutcome]

/-- a frame stack that belongs to `chart.run` itself (only the caller's task ever has one) -/
def isCallerFrames : List Frame → Bool
  | [.mgrStart] => true
  | [.mgrWait] => true
  | [.mgrCbStart _] => true
  | [.mgrCbComplete _ _] => true
  | _ => false

/-- **a cancelled engine task ends silently in one section**: whatever it was doing, its next section
unwinds its frames (only notifications and the node's event are touched), ends the task as cancelled, emits
nothing but its own `done`, and creates no task -/
theorem C13_cancelled_task_ends_silently (c : Ctx) (s : St) (tk : Task) (rv : Resume)
    (h : s.tasks[c.t]? = some tk) (hst : tk.st = .runnable rv) (hm : tk.mustCancel = true)
    (hf : isCallerFrames tk.frames = false) :
    stepTask c s = some (endTask c (unwindFrames c.P s tk.frames) [] .cancelled) ∧
    (endTask c (unwindFrames c.P s tk.frames) [] .cancelled).2 = [.done c.t .cancelled] ∧
    (endTask c (unwindFrames c.P s tk.frames) [] .cancelled).1.tasks.length = s.tasks.length := by
  have hlen : ∀ fs (s0 : St), (unwindFrames c.P s0 fs).tasks.length = s0.tasks.length := by
    intro fs
    induction fs with
    | nil => intro s0; rfl
    | cons f fs ih =>
      intro s0
      cases f <;> simp only [unwindFrames, ih]
      split
      · rfl
      · simp only [nodeFinally]
        split
        · simp
        · split <;> simp
  have hget : ∃ tk', (unwindFrames c.P s tk.frames).tasks[c.t]? = some tk' := by
    have : c.t < (unwindFrames c.P s tk.frames).tasks.length := by rw [hlen]; exact getElem?_lt h
    exact ⟨_, List.getElem?_eq_getElem this⟩
  obtain ⟨tk', hk'⟩ := hget
  refine ⟨?_, ?_, ?_⟩
  · unfold stepTask
    simp only [h, hst, hm, if_true]
    unfold deliverCancel
    cases hfr : tk.frames with
    | nil => simp [raiseOut]
    | cons f fs =>
      cases fs with
      | nil => cases f <;> simp_all [isCallerFrames, raiseOut]
      | cons g gs => simp [raiseOut]
  · simp [endTask, hk']
  · simp [endTask, hk', hlen]

/-- marks are stable: neither notifications, nor setting an event, nor another cancellation removes a mark -/
theorem C13_marks_are_stable (P : Program) (s : St) (fs : List Frame) (i : Nat) :
    ((unwindFrames P s fs).tasks[i]?).map Task.marked = (s.tasks[i]?).map Task.marked := by
  induction fs generalizing s with
  | nil => rfl
  | cons f fs ih =>
    cases f <;> simp only [unwindFrames, ih]
    split
    · rfl
    · simp only [nodeFinally]
      split
      · rw [marked_notify, marked_setEvent]
      · split
        · rw [marked_notify, marked_notify, marked_notifyAll, marked_setEvent]
        · rw [marked_notify, marked_notifyAll, marked_setEvent]

/-! Non-vacuity: a blocked, unfinished task that `run()`'s cleanup reaches becomes runnable and marked. -/
example :
    let tk : Task := { frames := [.dagWaitDest ⟨0, some 1, [0, 1], false, false, false⟩], st := .blocked (.cond (.node 1)) }
    (cancelled tk).marked = true ∧ (cancelled tk).st = .runnable .go := by
  decide

end MLPE.Eng

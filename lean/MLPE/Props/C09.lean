import MLPE.Props.C04
import MLPE.Proofs.SafeDemo

/-!
# C09 — switch-case runs exactly the selected branch and routes its value

General facts of the engine model (every program, every state):
* `_run_switch` selects the case whose label equals the *stored result of the decision node* and records it;
  a label that matches no case fails the switch task with `SwitchNoCase` after waking `run()`
  (`C09_selects_case_of_returned_label`, `C09_unknown_label_fails`);
* the consumer's keyword argument for a switch parameter is the stored result of the recorded case
  (`C09_consumer_gets_selected_case_value`);
* case edges are invisible in every reduced DAG, so a case node is part of a DAG only through the switch that
  selected it or through another declared dependency (`C09_case_edges_filtered`): non-selected cases are not
  launched by the switch (laziness outside recurrent subgraphs; inside them see the finding in DESIGN §5).
**Pipelines with switches only — any nesting, shared cases, shared decision nodes — in every reachable state, under
every schedule (theorems at the end of the file; `Proofs/Safe.lean`)**: for every solution `val` of the dataflow
equations with switches (`SolutionSw`: a switch node has the value of the case whose label its decision node returned),
* the decision a switch records is the semantic one (`C09_switch_decision_is_semantic`);
* every stored result is the solution's value (`C09_switch_results_agree`) — in particular the value routed to a
  consumer of the switch is the selected case's;
* every body invocation gets exactly the declared arguments computed from the solution, all of its sources having
  values (`C09_switch_invocation_arguments`);
* a returned value is `val output` (`C09_switch_returned_value`).
These are *safety* statements (what is stored, passed and returned is right); that a switch pipeline terminates is
tied by lock-step with the deadlock oracle, not proved.
-/
namespace MLPE.Eng
open MLPE

/-- the selected case is a declared case of this switch whose label is the string the decision node returned
(the *stored, visible* result of the decision node in this run and iteration) -/
theorem C09_selected_case_has_returned_label (P : Program) (s : St) (n : Node) (l : Label) (cn : Node)
    (h : switchSelect P s n = some (l, cn)) :
    switchLabel P s n = .str l ∧ (l, cn) ∈ switchCases P n := by
  unfold switchSelect at h
  split at h
  · next l' hl =>
    have hm := List.mem_of_getLast? h
    simp only [List.mem_filter, beq_iff_eq] at hm
    obtain ⟨hm1, hm2⟩ := hm
    subst hm2
    exact ⟨hl, hm1⟩
  · simp at h

/-- `_run_switch` records the selection and runs the sub-DAG input → selected case, inline -/
theorem C09_selects_case_of_returned_label (c : Ctx) (s : St) (obs : List Obs) (d : DagRef) (n : Node)
    (below : List Frame) (l : Label) (cn : Node) (sub : DagRef) (h : switchSelect c.P s n = some (l, cn))
    (hr : reducedRef c.P (openCand (s.setSw n (l, cn)) d.isOneof cn) c.P.g.input cn false d.isOneof d.isNested = some sub) :
    switchStart c s obs d n below =
      dagInit c (openCand (s.setSw n (l, cn)) d.isOneof cn) obs sub (.switchRet d n :: below) := by
  simp [switchStart, h, hr]

/-- a label that matches no case: `run()` is woken and the switch task ends with `SwitchNoCase` — no case is
selected, nothing is launched -/
theorem C09_unknown_label_fails (c : Ctx) (s : St) (obs : List Obs) (d : DagRef) (n : Node) (below : List Frame)
    (h : switchSelect c.P s n = none) (hd : d.isOneof = false) (hl : (switchLabel c.P s n).isExc = false) :
    switchStart c s obs d n below = raiseOut c (notify s .run) obs below (.exc ⟨"SwitchNoCase", n, 0, 0⟩) := by
  have : switchError c.P s n = ⟨"SwitchNoCase", n, 0, 0⟩ := by
    unfold switchError; split
    · next x hx => rw [hx] at hl; cases hl
    · rfl
  simp [switchStart, h, hd, this]

/-- a decision node that failed inside a one-of scope has its exception as result: the switch fails with that error, not
with a `SwitchDoesNotHaveCaseError` about an exception object -/
theorem C09_failed_decision_is_not_a_label (c : Ctx) (s : St) (obs : List Obs) (d : DagRef) (n : Node)
    (below : List Frame) (x : Exc) (hl : switchLabel c.P s n = .exc x) (hd : d.isOneof = false) :
    switchStart c s obs d n below = raiseOut c (notify s .run) obs below (.exc x) := by
  have h : switchSelect c.P s n = none := by unfold switchSelect; rw [hl]
  have : switchError c.P s n = x := by unfold switchError; rw [hl]
  simp [switchStart, h, hd, this]

/-- … inside a one-of scope the error is kept as the result of the switch node (the candidate fails, not the run): no
case is selected, nothing is launched, the waiters of the switch node and of its consumers are woken -/
theorem C09_unknown_label_fails_the_candidate (c : Ctx) (s : St) (obs : List Obs) (d : DagRef) (n : Node)
    (below : List Frame) (h : switchSelect c.P s n = none) (hd : d.isOneof = true) :
    switchStart c s obs d n below =
      retTo c (notifyAll (notify (s.setRes n (.exc (switchError c.P s n))) (.node n)) ((c.P.g.desc1 n).map Key.node))
        obs below .none := by
  simp [switchStart, h, hd]

/-- a label that is not a string, or a string no case declares, selects nothing -/
theorem C09_no_case_no_selection (P : Program) (s : St) (n : Node)
    (h : ∀ l, switchLabel P s n = .str l → ∀ cn, (l, cn) ∉ switchCases P n) : switchSelect P s n = none := by
  unfold switchSelect
  split
  · next l hl =>
    cases hg : ((switchCases P n).filter (·.1 == l)).getLast? with
    | none => rfl
    | some lc =>
      have hm := List.mem_of_getLast? hg
      simp only [List.mem_filter, beq_iff_eq] at hm
      obtain ⟨l', cn⟩ := lc
      simp only at hm
      obtain ⟨hm1, hm2⟩ := hm
      subst hm2
      exact absurd hm1 (h _ hl cn)
  · rfl

/-- case edges are not part of any reduced DAG -/
theorem C09_case_edges_filtered (P : Program) (s : St) (e : Edge) (h : e.case.isSome = true) :
    (filteredView P s).okEdge e = false := by
  cases hc : e.case <;> simp_all [filteredView]

/-- the value routed to the consumer of a switch parameter is the stored result of the recorded case -/
theorem C09_consumer_gets_selected_case_value (kw : Kwargs) (k : String) (s : St) (c : Node) :
    (k, s.getHid c) ∈ insertKw kw k (s.getHid c) := by
  simp [insertKw, List.partition_eq_filter_filter]

/-! ### Pipelines with switches only: safety in every reachable state, under every schedule -/

/-- **the recorded decision is the semantic one**: the label is the value of the decision node in the dataflow
semantics, the case is the declared case of that label, and the switch node's value is that case's value -/
theorem C09_switch_decision_is_semantic (P : Program) (val : Node → Option Val) (hsw : SwP P) (hsol : SolutionSw P val)
    (s : St) (h : Reach P s) (S : Node) (l : Label) (c : Node) (hs : s.sw S = some (l, c))
    (hS : P.g.isSwitch S = true) :
    switchLabelV P val S = some (.str l) ∧ ((switchCases P S).filter (·.1 == l)).getLast? = some (l, c) ∧
    val S = val c := by
  have hc := (safe_reach_sw hsw hsol h).data.swOK S l c hs
  refine ⟨hc.1, hc.2, ?_⟩
  rw [hsol.sw S hS, hc.sel]; rfl

/-- **every stored result is the value the dataflow semantics assigns to its node** -/
theorem C09_switch_results_agree (P : Program) (val : Node → Option Val) (hsw : SwP P) (hsol : SolutionSw P val)
    (s : St) (h : Reach P s) (n : Node) (v : Val) (hr : s.res n = some v) :
    val n = some v ∧ v.isRecur = false ∧ v.isExc = false :=
  have hne := (safe_reach_sw hsw hsol h).data.noExc hsw.noHeads n v hr
  ⟨(safe_reach_sw hsw hsol h).data.agree n v hr hne, (safe_reach_sw hsw hsol h).data.vals n v hr, hne⟩

/-- **every body invocation gets the declared arguments**: a task that is executing (or has just executed) attempt `k`
of node `n` with arguments `kw` — for a switch parameter the value of the selected case, as `val` of the switch node -/
theorem C09_switch_invocation_arguments (P : Program) (val : Node → Option Val) (hsw : SwP P)
    (hsol : SolutionSw P val) (s : St) (h : Reach P s) (i : Nat) (tk : Task) (hi : s.tasks[i]? = some tk)
    (d : DagRef) (n : Node) (f : Bool) (k : Nat) (kw : Kwargs) (inv : Nat)
    (hf : Frame.node d n f (.body k kw inv) ∈ tk.frames) :
    kw = kwFrom P val n ∧ (∀ p ∈ P.g.preds n, (val p).isSome = true) ∧ inv = 0 ∧ 1 ≤ k ∧ k ≤ (P.cfg n).attemptsEff := by
  obtain ⟨_, _, _, _, a⟩ := (safe_reach_sw hsw hsol h).frames i tk hi (by simp) _ hf
  refine ⟨a.kw_eq, ?_, a.inv0, a.kpos, a.kle⟩
  have := a.preds
  rw [List.all_eq_true] at this
  exact this

/-- **a returned value is the dataflow value of the output node** -/
theorem C09_switch_returned_value (P : Program) (val : Node → Option Val) (hsw : SwP P) (hsol : SolutionSw P val)
    (s : St) (h : Reach P s) (v : Val) (ho : s.outcome = some (.value v)) : val P.g.output = some v :=
  outcome_value_sw hsw ((safe_reach_sw hsw hsol h).data.out (.value v) ho)

/-- **everything the collaborators observe is justified** (the observation log is what the lock-step tie compares with
the real engine): a body is invoked with the declared arguments, in its only invocation, within its attempt budget and
only after every earlier attempt was a retryable failure; a default is computed only when the policy ends in the
default; what is saved is the node's final value; success is reported only for a node that has a value; a reported
node error is an exception the body raised (or a collaborator's); the reported and returned outcome is the output's
value or an error with a cause -/
theorem C09_switch_observations (P : Program) (val : Node → Option Val) (hsw : SwP P) (hsol : SolutionSw P val)
    (s : St) (log : List Obs) (h : Exec P s log) : ∀ o ∈ log, ObsOK P val o :=
  (safe_exec_sw hsw hsol h).2

/-- **an error outcome has a cause**: the final failure of a node on its dataflow arguments, a failing collaborator, a
switch whose decision names no declared case, or a setup error (unreachable case, pools not registered) -/
theorem C09_switch_error_has_cause (P : Program) (val : Node → Option Val) (hsw : SwP P) (hsol : SolutionSw P val)
    (s : St) (h : Reach P s) (e : Exc) (ho : s.outcome = some (.error e) ∨ s.outcome = some (.raised e)) :
    ErrCause P val e := by
  rcases ho with ho | ho
  · exact (safe_reach_sw hsw hsol h).data.out _ ho
  · exact (safe_reach_sw hsw hsol h).data.out _ ho

/-- a failed switch pipeline whose collaborators do not fail and whose setup is sound failed because a node did, or
because a decision named no case -/
theorem C09_switch_error_is_a_node_failure (P : Program) (val : Node → Option Val) (hsw : SwP P)
    (hsol : SolutionSw P val) (s : St) (h : Reach P s) (e : Exc)
    (ho : s.outcome = some (.error e) ∨ s.outcome = some (.raised e))
    (hcb : ∀ cb n, P.cbRaise cb n = none) (hpools : P.poolsOk = true) (hlk : e.cls ≠ "Other:NodeNotFound") :
    (∃ n, P.g.isSwitch n = false ∧ NodeFails P val n e ∧ val n = none) ∨
    (∃ S, P.g.isSwitch S = true ∧ e = ⟨"SwitchNoCase", S, 0, 0⟩ ∧ swSel P val S = none ∧ val S = none) := by
  rcases errCause_sw hsw (C09_switch_error_has_cause P val hsw hsol s h e ho) with
    ⟨n, h1, h2⟩ | ⟨cb, m, hc⟩ | ⟨S, h1, h2, h4⟩ | h5 | ⟨h6, _⟩
  · refine Or.inl ⟨n, h1, h2, ?_⟩
    rw [hsol.plain n h1, h2.1]
    simp only [if_true, valueOf, h2.2]
  · rw [hcb] at hc; cases hc
  · refine Or.inr ⟨S, h1, h2, h4, ?_⟩
    rw [hsol.sw S h1, h4]; rfl
  · exact absurd (by rw [h5]) hlk
  · rw [hpools] at h6; cases h6

/-- **only needed nodes ever run** (laziness): in every reachable state — the launch orders supplied so far having been
topological orders of their DAGs (`badOrd = false`; the check validates every order the real `_get_node_order` returns) —
a node that has been started is needed by the dataflow reading: it is the output, a source of a needed ordinary node, the
decision node of a needed switch or its **selected** case -/
theorem C09_switch_only_needed_nodes_run (P : Program) (val : Node → Option Val) (hsw : SwP P)
    (hsol : SolutionSw P val) (s : St) (h : Reach P s) (hord : s.badOrd = false) (n : Node) (hp : s.proc n = true) :
    Demanded P val n := by
  rcases (safe_reach_sw hsw hsol h).data.lazy with hb | hl
  · rw [hord] at hb; cases hb
  · exact hl n hp

/-- a node nobody needs — for instance a node needed only by a case that is not selected — never starts: it is not marked
as processed, so no `on_node_start`, no body call (both happen in the section that marks it) -/
theorem C09_switch_unneeded_node_never_runs (P : Program) (val : Node → Option Val) (hsw : SwP P)
    (hsol : SolutionSw P val) (s : St) (h : Reach P s) (hord : s.badOrd = false) (n : Node)
    (hn : ¬ Demanded P val n) : s.proc n = false := by
  cases hp : s.proc n with
  | false => rfl
  | true => exact absurd (C09_switch_only_needed_nodes_run P val hsw hsol s h hord n hp) hn

/-- two executions of a switch pipeline — whatever their schedules — never return different values -/
theorem C09_switch_values_agree (P : Program) (val : Node → Option Val) (hsw : SwP P) (hsol : SolutionSw P val)
    (s₁ s₂ : St) (h₁ : Reach P s₁) (h₂ : Reach P s₂) (v₁ v₂ : Val) (ho₁ : s₁.outcome = some (.value v₁))
    (ho₂ : s₂.outcome = some (.value v₂)) : v₁ = v₂ := by
  have a := C09_switch_returned_value P val hsw hsol s₁ h₁ v₁ ho₁
  have b := C09_switch_returned_value P val hsw hsol s₂ h₂ v₂ ho₂
  rw [a] at b; exact Option.some.inj b

/-! Non-vacuity: the demo pipeline of `Proofs/SafeDemo.lean` is a switch pipeline with a solution; a complete run of it
(decision first, then the selected case, the consumer, the return) is exhibited, and by the theorem its value is the
solution's: the value of case `2`, not of case `3`. -/

/-- run a list of choices -/
def runChoicesR (P : Program) : St → List Choice → Option St
  | s, [] => some s
  | s, c :: cs => match step P s c with
    | some (s', _) => runChoicesR P s' cs
    | none => none

theorem reach_of_run {P : Program} : ∀ (cs : List Choice) (s s' : St), Reach P s → runChoicesR P s cs = some s' → Reach P s'
  | [], s, s', h, hr => by simp [runChoicesR] at hr; exact hr ▸ h
  | c :: cs, s, s', h, hr => by
    simp only [runChoicesR] at hr
    split at hr
    · next s1 obs hs => exact reach_of_run cs s1 s' (.step h hs) hr
    · cases hr

def demoSwitchRun : List Choice :=
  [.run 0 [] 0, .run 1 [0, 1, 4, 5] 0, .run 2 [] 0, .gate 0 0 1, .run 2 [] 0, .run 1 [] 0, .run 3 [] 0, .gate 1 0 1,
   .run 3 [] 0, .run 1 [] 0, .run 4 [2] 0, .run 5 [] 0, .gate 2 0 1, .run 5 [] 0, .run 4 [] 0, .run 4 [] 0, .run 1 [] 0,
   .run 6 [] 0, .gate 5 0 1, .run 6 [] 0, .run 1 [] 0, .run 0 [] 0]

example : ∃ s, runChoicesR demoSwitch init demoSwitchRun = some s ∧ Reach demoSwitch s ∧
    s.sw 4 = some ("l0", 2) ∧ demoSwVal 4 = demoSwVal 2 ∧ s.proc 3 = false ∧
    ∃ v, s.outcome = some (.value v) ∧ demoSwVal demoSwitch.g.output = some v := by
  have h : (runChoicesR demoSwitch init demoSwitchRun).isSome = true := by decide +kernel
  obtain ⟨s, hs⟩ := Option.isSome_iff_exists.mp h
  have hr := reach_of_run demoSwitchRun init s .init hs
  have fact : ∀ (f : St → Bool), ((runChoicesR demoSwitch init demoSwitchRun).map f) = some true → f s = true := by
    intro f hf; rw [hs] at hf; simpa using hf
  have hsw4 : s.sw 4 = some ("l0", 2) := by
    have := fact (fun s => decide (s.sw 4 = some ("l0", 2))) (by decide +kernel)
    simpa using this
  have hval : ∃ v, s.outcome = some (.value v) := by
    have := fact (fun s => match s.outcome with | some (.value _) => true | _ => false) (by decide +kernel)
    cases ho : s.outcome with
    | none => simp [ho] at this
    | some o => cases o <;> simp [ho] at this; exact ⟨_, rfl⟩
  obtain ⟨v, hv⟩ := hval
  have hdec := C09_switch_decision_is_semantic demoSwitch demoSwVal demoSwitch_swP demoSwVal_solution s hr 4 "l0" 2 hsw4
    (by decide)
  have hord : s.badOrd = false := by
    have := fact (fun s => !s.badOrd) (by decide +kernel)
    simpa using this
  have h3 : s.proc 3 = false :=
    C09_switch_unneeded_node_never_runs demoSwitch demoSwVal demoSwitch_swP demoSwVal_solution s hr hord 3
      (fun hd => absurd (demoSwitch_demanded 3 hd) (by decide))
  exact ⟨s, hs, hr, hsw4, hdec.2.2, h3, v, hv,
    C09_switch_returned_value demoSwitch demoSwVal demoSwitch_swP demoSwVal_solution s hr v hv⟩

/-- run a list of choices, collecting the observation log -/
def runLog (P : Program) : St → List Obs → List Choice → Option (St × List Obs)
  | s, log, [] => some (s, log)
  | s, log, c :: cs => match step P s c with
    | some (s', obs) => runLog P s' (log ++ obs) cs
    | none => none

theorem exec_of_runLog {P : Program} : ∀ (cs : List Choice) (s : St) (log : List Obs) (r : St × List Obs),
    Exec P s log → runLog P s log cs = some r → Exec P r.1 r.2
  | [], s, log, r, h, hr => by simp [runLog] at hr; subst hr; exact h
  | c :: cs, s, log, r, h, hr => by
    simp only [runLog] at hr
    split at hr
    · next s1 obs hs => exact exec_of_runLog cs s1 _ r (.step h hs) hr
    · cases hr

/-- in the complete run above, the consumer's body (node 5) is observed being invoked, the selected case's value is
observed being saved, and a value is observed being returned: by `C09_switch_observations` the consumer got the declared
arguments — the selected case's value for its switch parameter — and what was saved and returned is the solution's -/
example : ∃ s log, Exec demoSwitch s log ∧
    (∃ kw, Obs.body 5 0 1 kw ∈ log ∧ kw = kwFrom demoSwitch demoSwVal 5) ∧
    (∃ v, Obs.save 2 v ∈ log ∧ demoSwVal 2 = some v) ∧
    (∃ v, Obs.returned (.value v) ∈ log ∧ demoSwVal demoSwitch.g.output = some v) := by
  have h : (runLog demoSwitch init [] demoSwitchRun).isSome = true := by decide +kernel
  obtain ⟨r, hr⟩ := Option.isSome_iff_exists.mp h
  have hex := exec_of_runLog demoSwitchRun init [] r .init hr
  have hall := C09_switch_observations demoSwitch demoSwVal demoSwitch_swP demoSwVal_solution r.1 r.2 hex
  have fact : ∀ (p : Obs → Bool), ((runLog demoSwitch init [] demoSwitchRun).map (fun r => r.2.any p)) = some true →
      ∃ o ∈ r.2, p o = true := by
    intro p hp; rw [hr] at hp; simpa using hp
  obtain ⟨o1, hm1, hp1⟩ := fact (fun o => match o with | .body 5 0 1 _ => true | _ => false) (by decide +kernel)
  obtain ⟨o2, hm2, hp2⟩ := fact (fun o => match o with | .save 2 _ => true | _ => false) (by decide +kernel)
  obtain ⟨o3, hm3, hp3⟩ := fact (fun o => match o with | .returned (.value _) => true | _ => false) (by decide +kernel)
  refine ⟨r.1, r.2, hex, ?_, ?_, ?_⟩
  · split at hp1
    · next kw => exact ⟨kw, hm1, (hall _ hm1).kw_eq⟩
    · cases hp1
  · split at hp2
    · next v => exact ⟨v, hm2, (hall _ hm2).1⟩
    · cases hp2
  · split at hp3
    · next v => exact ⟨v, hm3, outcome_value_sw demoSwitch_swP (hall _ hm3)⟩
    · cases hp3

end MLPE.Eng

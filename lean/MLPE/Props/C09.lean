import MLPE.Props.C04

/-!
# C09 — switch-case runs exactly the selected branch and routes its value

General facts of the engine model (every program, every state):
* `_run_switch` selects the case whose label equals the *stored result of the decision node* and records it;
  a label that matches no case fails the switch task with `SwitchNoCase` after waking `run()`
  (`C09_selects_case_of_returned_label`, `C09_unknown_label_fails`);
* the consumer's keyword argument for a switch parameter is the stored result of the recorded case
  (`C09_consumer_gets_selected_case_value`);
* case edges are invisible in every reduced DAG, so a case node is part of a DAG only through the switch that
  selected it or through another declared dependency (`C09_case_edges_filtered`): non-selected cases are not
  launched by the switch (laziness outside recurrent subgraphs; inside them see the finding in DESIGN §5).
Routing / liveness for private cases in every schedule is tied by lock-step and checked by the `Sem` monitors.
-/
namespace MLPE.Eng
open MLPE

/-- the selected case is a declared case of this switch whose label is the string the decision node returned
(the *stored, visible* result of the decision node in this run and iteration) -/
theorem C09_selected_case_has_returned_label (P : Program) (s : St) (n : Node) (l : Label) (cn : Node)
    (h : switchSelect P s n = some (l, cn)) :
    switchLabel P s n = .str l ∧ (l, cn) ∈ switchCases P n := by
  unfold switchSelect at h
  split at h
  · next l' hl =>
    have hm := List.mem_of_getLast? h
    simp only [List.mem_filter, beq_iff_eq] at hm
    obtain ⟨hm1, hm2⟩ := hm
    subst hm2
    exact ⟨hl, hm1⟩
  · simp at h

/-- `_run_switch` records the selection and runs the sub-DAG input → selected case, inline -/
theorem C09_selects_case_of_returned_label (c : Ctx) (s : St) (obs : List Obs) (d : DagRef) (n : Node)
    (below : List Frame) (l : Label) (cn : Node) (sub : DagRef) (h : switchSelect c.P s n = some (l, cn))
    (hr : reducedRef c.P (openCand (s.setSw n (l, cn)) d.isOneof cn) c.P.g.input cn false d.isOneof false = some sub) :
    switchStart c s obs d n below =
      dagInit c (openCand (s.setSw n (l, cn)) d.isOneof cn) obs sub (.switchRet d n :: below) := by
  simp [switchStart, h, hr]

/-- a label that matches no case: `run()` is woken and the switch task ends with `SwitchNoCase` — no case is
selected, nothing is launched -/
theorem C09_unknown_label_fails (c : Ctx) (s : St) (obs : List Obs) (d : DagRef) (n : Node) (below : List Frame)
    (h : switchSelect c.P s n = none) :
    switchStart c s obs d n below = raiseOut c (notify s .run) obs below (.exc ⟨"SwitchNoCase", n, 0, 0⟩) := by
  simp [switchStart, h]

/-- a label that is not a string, or a string no case declares, selects nothing -/
theorem C09_no_case_no_selection (P : Program) (s : St) (n : Node)
    (h : ∀ l, switchLabel P s n = .str l → ∀ cn, (l, cn) ∉ switchCases P n) : switchSelect P s n = none := by
  unfold switchSelect
  split
  · next l hl =>
    cases hg : ((switchCases P n).filter (·.1 == l)).getLast? with
    | none => rfl
    | some lc =>
      have hm := List.mem_of_getLast? hg
      simp only [List.mem_filter, beq_iff_eq] at hm
      obtain ⟨l', cn⟩ := lc
      simp only at hm
      obtain ⟨hm1, hm2⟩ := hm
      subst hm2
      exact absurd hm1 (h _ hl cn)
  · rfl

/-- case edges are not part of any reduced DAG -/
theorem C09_case_edges_filtered (P : Program) (s : St) (e : Edge) (h : e.case.isSome = true) :
    (filteredView P s).okEdge e = false := by
  cases hc : e.case <;> simp_all [filteredView]

/-- the value routed to the consumer of a switch parameter is the stored result of the recorded case -/
theorem C09_consumer_gets_selected_case_value (kw : Kwargs) (k : String) (s : St) (c : Node) :
    (k, s.getHid c) ∈ insertKw kw k (s.getHid c) := by
  simp [insertKw, List.partition_eq_filter_filter]

end MLPE.Eng

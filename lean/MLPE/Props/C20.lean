import MLPE.Viewer

/-!
# C20 — the viewer graph description is a faithful projection of the DAG

For every DAG (any node ids, any classes) on which `config` succeeds:
* exactly one entry per DAG node, in DAG order (`C20_one_entry_per_node`); synthetic nodes (not in the node map)
  are virtual and typed by their id prefix, real nodes carry their declared name / type / documentation
  (`C20_entries_describe_their_node`);
* exactly one edge entry per DAG dependency, same endpoints, with ids that are unique whenever the dependencies are
  (`C20_one_entry_per_edge`, `C20_edge_ids_unique`);
* the node-type table covers every type that occurs (`C20_type_table_covers`);
* `config` is a function of its input: generating it cannot modify the DAG (by construction; the differential check
  compares a deep snapshot of the real DAG before and after).
-/
namespace MLPE.Viewer

theorem mapM'_spec {α β} (f : α → Except String β) : ∀ (l : List α) (r : List β), mapM' f l = .ok r →
    r.length = l.length ∧ ∀ i (h : i < l.length) (h' : i < r.length), f l[i] = .ok r[i] := by
  intro l
  induction l with
  | nil => intro r h; simp [mapM'] at h; subst h; simp
  | cons a as ih =>
    intro r h
    simp only [mapM'] at h
    cases hf : f a with
    | error e => simp [hf] at h
    | ok b =>
      simp only [hf] at h
      cases hm : mapM' f as with
      | error e => simp [hm] at h
      | ok bs =>
        simp [hm] at h; subst h
        obtain ⟨hl, hi⟩ := ih bs hm
        refine ⟨by simp [hl], ?_⟩
        intro i h1 h2
        cases i with
        | zero => simpa using hf
        | succ i => simpa using hi i (by simpa using h1) (by simpa using h2)

theorem mkNode_id (v : VIn) (id : String) (n : VNode) (h : mkNode v id = .ok n) : n.id = id := by
  unfold mkNode at h
  split at h
  · split at h
    · simp at h; subst h; rfl
    · simp at h
  · simp at h; subst h; rfl

/-- exactly one entry per DAG node, in the DAG's node order -/
theorem C20_one_entry_per_node (v : VIn) (colors : String → Option String) (c : Config)
    (h : config v colors = .ok c) : c.nodes.map (·.id) = v.nodes := by
  unfold config at h
  cases hm : mapM' (mkNode v) v.nodes with
  | error e => simp [hm] at h
  | ok ns =>
    simp [hm] at h; subst h
    obtain ⟨hl, hi⟩ := mapM'_spec _ _ _ hm
    apply List.ext_getElem
    · simp [hl]
    · intro i h1 h2
      simp only [List.getElem_map]
      exact mkNode_id v _ _ (hi i (by simpa using h2) (by simpa using h1))

/-- each entry describes its node: virtual + prefix type for synthetic nodes, declared data for real ones -/
theorem C20_entries_describe_their_node (v : VIn) (colors : String → Option String) (c : Config)
    (h : config v colors = .ok c) (n : VNode) (hn : n ∈ c.nodes) :
    (v.info n.id = none ∧ n.isVirtual = true ∧ n.isGeneric = false ∧ n.type = byPrefix n.id ∧ n.type.isSome ∧ n.data = none) ∨
    (∃ ci, v.info n.id = some ci ∧ n.isVirtual = false ∧ n.type = ci.nodeType ∧
      n.data = some ⟨ci.name, ci.verboseName, ci.doc, ci.code⟩ ∧ n.isGeneric = isGenericName ci.className) := by
  unfold config at h
  cases hm : mapM' (mkNode v) v.nodes with
  | error e => simp [hm] at h
  | ok ns =>
    simp [hm] at h; subst h
    obtain ⟨hl, hi⟩ := mapM'_spec _ _ _ hm
    obtain ⟨i, hi', rfl⟩ := List.getElem_of_mem hn
    have hmk := hi i (by rw [← hl]; exact hi') hi'
    unfold mkNode at hmk
    split at hmk
    · next hinfo =>
      split at hmk
      · next t ht =>
        have hn' := Except.ok.inj hmk
        left
        rw [← hn']
        exact ⟨hinfo, rfl, rfl, ht.symm, by simp, rfl⟩
      · simp at hmk
    · next ci hinfo =>
      have hn' := Except.ok.inj hmk
      right
      rw [← hn']
      exact ⟨ci, hinfo, rfl, rfl, rfl, rfl⟩

/-- exactly one edge entry per DAG dependency, with the same endpoints, in order -/
theorem C20_one_entry_per_edge (v : VIn) (colors : String → Option String) (c : Config)
    (h : config v colors = .ok c) : c.edges.map (fun e => (e.source, e.target)) = v.edges := by
  unfold config at h
  cases hm : mapM' (mkNode v) v.nodes with
  | error e => simp [hm] at h
  | ok ns =>
    simp [hm] at h; subst h
    simp [List.map_map, Function.comp_def, mkEdge]

/-- edge ids are unique whenever `source->target` names the dependencies uniquely -/
theorem C20_edge_ids_unique (v : VIn) (colors : String → Option String) (c : Config)
    (h : config v colors = .ok c) (hu : (v.edges.map fun e => e.1 ++ "->" ++ e.2).Nodup) :
    (c.edges.map (·.id)).Nodup := by
  unfold config at h
  cases hm : mapM' (mkNode v) v.nodes with
  | error e => simp [hm] at h
  | ok ns =>
    simp [hm] at h; subst h
    simpa [List.map_map, Function.comp_def, mkEdge] using hu

theorem typeTable_covers (colors : String → Option String) : ∀ (ns : List VNode) (n : VNode) (t : String),
    n ∈ ns → n.type = some t → t ∈ (typeTable colors ns).map (·.1) := by
  intro ns
  induction ns with
  | nil => intro n t h; simp at h
  | cons m ms ih =>
    intro n t hn ht
    simp only [typeTable]
    rcases List.mem_cons.mp hn with rfl | hmem
    · simp [ht]
    · have := ih n t hmem ht
      cases hmt : m.type with
      | none => simpa [hmt] using this
      | some t' =>
        simp only [hmt, List.map_cons, List.mem_cons]
        by_cases he : t = t'
        · exact Or.inl he
        · right
          simp only [List.mem_map] at this ⊢
          obtain ⟨p, hp, hpe⟩ := this
          exact ⟨p, List.mem_filter.mpr ⟨hp, by simp [hpe, he]⟩, hpe⟩

/-- the node-type table covers every type that occurs -/
theorem C20_type_table_covers (v : VIn) (colors : String → Option String) (c : Config)
    (h : config v colors = .ok c) (n : VNode) (hn : n ∈ c.nodes) (t : String) (ht : n.type = some t) :
    t ∈ c.nodeTypes.map (·.1) := by
  unfold config at h
  cases hm : mapM' (mkNode v) v.nodes with
  | error e => simp [hm] at h
  | ok ns =>
    simp [hm] at h; subst h
    exact typeTable_covers colors ns n t hn ht

/-- generation succeeds iff every synthetic node's id carries a known prefix (always true of built DAGs) -/
theorem C20_succeeds_on_built_dags (v : VIn) (colors : String → Option String)
    (h : ∀ id ∈ v.nodes, v.info id = none → (byPrefix id).isSome) : ∃ c, config v colors = .ok c := by
  have : ∀ (l : List String), (∀ id ∈ l, v.info id = none → (byPrefix id).isSome) → ∃ ns, mapM' (mkNode v) l = .ok ns := by
    intro l
    induction l with
    | nil => intro _; exact ⟨[], rfl⟩
    | cons a as ih =>
      intro hl
      obtain ⟨ns, hns⟩ := ih (fun id hid => hl id (List.mem_cons_of_mem _ hid))
      have ha : ∃ n, mkNode v a = .ok n := by
        unfold mkNode
        cases hi : v.info a with
        | none =>
          have := hl a (by simp) hi
          cases hb : byPrefix a with
          | none => simp [hb] at this
          | some t => exact ⟨_, rfl⟩
        | some ci => exact ⟨_, rfl⟩
      obtain ⟨n, hn⟩ := ha
      exact ⟨n :: ns, by simp [mapM', hn, hns]⟩
  obtain ⟨ns, hns⟩ := this v.nodes h
  exact ⟨{ nodes := ns, edges := v.edges.map mkEdge, nodeTypes := typeTable colors ns }, by simp [config, hns]⟩

end MLPE.Viewer

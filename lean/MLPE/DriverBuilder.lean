import Lean.Data.Json
import MLPE.Builder

/-! `build` mode of the driver: one declaration spec per line → canonical dump of the built graph, or the error class -/
namespace MLPE.Builder
open Lean

def gNat? (j : Json) (k : String) : Option Nat := (j.getObjValAs? Nat k).toOption
def gBool (j : Json) (k : String) (d : Bool := false) : Bool := ((j.getObjValAs? Bool k).toOption).getD d
def gStr (j : Json) (k : String) (d : String := "") : String := ((j.getObjValAs? String k).toOption).getD d
def gArr (j : Json) (k : String) : List Json := (((j.getObjValAs? (Array Json) k).toOption).getD #[]).toList

def parseMark (m : Json) (anon : String := "") : Mark :=
  let k := gStr m "kind"
  if k == "input" then .input ((gNat? m "src").getD 0)
  else if k == "generic" then .generic ((gNat? m "src").getD 0)
  else if k == "switch" then
    .switch ((gNat? m "decider").getD 0)
      ((gArr m "cases").filterMap fun c => match c with
        | .arr #[l, n] => match l.getStr?.toOption, n.getNat?.toOption with
          | some a, some b => some (a, b)
          | _, _ => none
        | _ => none)
      (match (m.getObjValAs? String "name").toOption with
        | some n => n
        | none => anon)        -- SwitchCase(name=None): a fresh id (uuid in the code; structural here, renamed by the harness)
  else if k == "oneof" then .oneOf ((gArr m "cands").filterMap fun x => x.getNat?.toOption)
  else .recurrent ((gNat? m "start").getD 0) ((gNat? m "dest").getD 0) ((gNat? m "max").getD 0)

def parseDecl (j : Json) : Decl :=
  let marks := ((gArr j "marks").zipIdx).filterMap fun (km, i) => match km with
    | .arr #[k, m] => k.getStr?.toOption.map fun s => (s, parseMark m s!"anon:{gStr j "name"}:{i}")
    | _ => none
  let defect := gStr j "defect"
  let mode := gStr j "mode" "coro"
  { ident := gStr j "ident",
    marks := marks,
    isClass := defect != "not_class",
    hasBase := defect != "no_base",
    hasProcess := defect != "no_process",
    noAnnotations := defect == "no_annotations",
    unannotated := if defect == "unannotated" then some "z" else none,
    isRecurrent := gBool j "is_rec",
    hasAdditional := gBool j "has_additional",
    isCoroutine := mode == "coro",
    processTag := mode == "process" }

def optStr : Option String → Json
  | some s => Json.str s
  | none => Json.null

def dump (b : Built) : Json :=
  let nodes := b.g.nodes.map fun (id, a) =>
    Json.arr #[Json.str id, Json.bool a.isSwitch, Json.bool a.isOneofHead, toJson a.oneofNodes,
               Json.bool a.isOneofChild, optStr a.startNode, match a.maxIter with | some k => toJson k | none => Json.null]
  let edges := b.g.edges.map fun ((u, v), a) =>
    Json.arr #[Json.str u, Json.str v, optStr a.kwarg, Json.bool a.isSwitch, optStr a.case]
  let srt (l : List Json) : List Json := (l.toArray.qsort (fun a b => a.compress < b.compress)).toList
  Json.mkObj [("nodes", Json.arr (srt nodes).toArray), ("edges", Json.arr (srt edges).toArray),
              ("node_map", toJson ((b.g.nodeMap.map (·.1)).toArray.qsort (· < ·)).toList),
              ("input", Json.str b.input), ("output", Json.str b.output),
              ("process_pool", Json.bool b.processPool), ("thread_pool", Json.bool b.threadPool)]

def buildLine (_ : Unit) (line : String) : Unit × String :=
  match Json.parse line with
  | .error e => ((), "{\"error\":\"json " ++ e ++ "\"}")
  | .ok j =>
    let D : Decls := { ds := (gArr j "nodes").map parseDecl, input := (gNat? j "input").getD 0,
                       output := (gNat? j "output").getD 0 }
    match build D with
    | .error e => ((), (Json.mkObj [("build_error", Json.str e.name)]).compress)
    | .ok b => ((), (dump b).compress)

end MLPE.Builder

import MLPE.Basic

/-!
# Retry / default policy — model of `DAGRunConcurrentManager.__execute_node` + `NodeRetryPolicy`

`Retry.run cfg outcomes dflt` is the result of the attempt loop when the k-th invocation of the body
(k = 1, 2, …) yields `outcomes k`.  The trace records every invocation and every sleep, so that
"invoked exactly so many times, with `delay` between attempts" is a statement about this function.
`Eng.nodeAfterBody` takes exactly the same decisions (theorem `Eng.afterBody_agrees`, C12).
-/
namespace MLPE.Retry

inductive Ev
  | call (k : Nat)          -- k-th invocation of the body (same kwargs every time)
  | sleep (d : Nat)         -- `asyncio.sleep(delay)` between attempts
  | dflt                    -- `get_default(**kwargs)` called
  deriving DecidableEq, Repr

inductive Final
  | value (v : Val)         -- the node's value (body result, possibly a `Recurrent` marker)
  | default                 -- the value is `get_default(**kwargs)`
  | failed (e : Exc)        -- the node's failure: its last exception
  deriving DecidableEq, Repr

/-- what the loop does after attempt `k` produced outcome `o` -/
inductive Decision
  | done (f : Final)
  | retry                   -- emit on_node_complete(error), sleep(delay), attempt k+1
  deriving DecidableEq, Repr

def decide (cfg : NodeCfg) (k : Nat) : BodyOutcome → Decision
  | .ret v => .done (.value v)
  | .raise e =>
    if cfg.retryable e then
      if k == cfg.attemptsEff then (if cfg.useDefault then .done .default else .done (.failed e))
      else .retry
    else if e.isException then (if cfg.useDefault then .done .default else .done (.failed e))
    else .done (.failed e)        -- BaseException outside Exception: neither retried nor defaulted

/-- the attempt loop, started at attempt `k`, with `fuel` attempts left to explore -/
def loop (cfg : NodeCfg) (outcomes : Nat → BodyOutcome) : Nat → Nat → List Ev × Option Final
  | 0, _ => ([], none)
  | fuel + 1, k =>
    match decide cfg k (outcomes k) with
    | .done .default => ([.call k, .dflt], some .default)
    | .done f => ([.call k], some f)
    | .retry =>
      let (evs, f) := loop cfg outcomes fuel (k + 1)
      (.call k :: .sleep cfg.delayEff :: evs, f)

/-- run the whole policy: at most `attemptsEff` attempts are ever needed -/
def run (cfg : NodeCfg) (outcomes : Nat → BodyOutcome) : List Ev × Option Final :=
  loop cfg outcomes cfg.attemptsEff 1

end MLPE.Retry

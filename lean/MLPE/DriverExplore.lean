import MLPE.DriverEng

/-!
Random exploration of the engine model's own schedule space (every interleaving the model allows, not only asyncio's FIFO
order): a search for stuck states, used as a sanity check of stuck-freedom statements and as extra evidence for C02.
Not a proof.
-/
namespace MLPE.Eng
open Lean

/-- a valid answer of `_get_node_order(d)` in state `s`: Kahn's algorithm on the expected node set; ties broken by `r` -/
def autoOrder (P : Program) (s : St) (d : DagRef) (r : Nat) : List Node :=
  let ex := expectedOrder P s d
  let edgeOK (e : Edge) : Bool := d.isRec || (e.case.isNone && !((P.g.attr e.v).oneofNodes.contains e.u))
  let rec go (fuel : Nat) (remaining : List Node) (acc : List Node) (r : Nat) : List Node :=
    match fuel with
    | 0 => acc ++ remaining
    | fuel + 1 =>
      if remaining.isEmpty then acc
      else
        let free := remaining.filter fun n =>
          !(P.g.edges.any fun e => e.v == n && e.u != n && remaining.contains e.u && edgeOK e)
        match free[r % (max free.length 1)]? with
        | some n => go fuel (remaining.filter (· != n)) (acc ++ [n]) (r / 3 + 7 * r % 1000003)
        | none => acc ++ remaining
  go (ex.length + 1) ex [] r

/-- the DAG whose launch order task `t`'s next section will ask for (if any) -/
def nextDag (P : Program) (s : St) (t : Nat) : Option (St × DagRef) :=
  match s.tasks[t]? with
  | some tk =>
    match tk.frames with
    | .dagInit d :: _ => some (s, d)
    | .switchStart d n :: _ =>
      match switchSelect P s n with
      | some (l, cn) =>
        let s' := openCand (s.setSw n (l, cn)) d.isOneof cn
        (reducedRef P s' P.g.input cn false d.isOneof false).map (fun sub => (s', sub))
      | none => none
    | _ => none
  | none => none

def enabled (P : Program) (s : St) (r : Nat) : List Choice :=
  let runs := (List.range s.tasks.length).filterMap fun i =>
    match s.tasks[i]? with
    | some tk => if isRunnable tk then
        let ord := match nextDag P s i with | some (s', d) => autoOrder P s' d r | none => []
        some (Choice.run i ord r)
      else none
    | none => none
  let gates := s.tasks.filterMap fun tk => match tk.st with
    | .blocked (.gate n i a _) => some (Choice.gate n i a)
    | _ => none
  let timers := (List.range s.tasks.length).filterMap fun i =>
    match s.tasks[i]? with
    | some tk => (match tk.st with | .blocked (.sleep ..) => some (Choice.timer i) | _ => none)
    | none => none
  runs ++ gates ++ timers

def lcg (x : Nat) : Nat := (x * 6364136223846793005 + 1442695040888963407) % 18446744073709551616

inductive WalkEnd | returned | stuck | timeout | refused
  deriving DecidableEq

/-- one random walk: `(how it ended, choices made, bad oracle seen)` -/
def walk (P : Program) : Nat → Nat → St → List String → WalkEnd × List String × Bool
  | 0, _, s, acc => (.timeout, acc.reverse, s.badOrd)
  | fuel + 1, r, s, acc =>
    if s.outcome.isSome then (.returned, acc.reverse, s.badOrd)
    else if stuck s then (.stuck, acc.reverse, s.badOrd)
    else
      let en := enabled P s r
      match en[(r / 65536) % (max en.length 1)]? with
      | none => (.stuck, acc.reverse, s.badOrd)
      | some ch =>
        match step P s ch with
        | none => (.refused, acc.reverse, s.badOrd)
        | some (s', _) =>
          let d := match ch with
            | .run t ord _ => s!"run {t} {ord}"
            | .gate n i a => s!"gate {n} {i} {a}"
            | .timer t => s!"timer {t}"
            | .cancelCaller => "cancel"
          walk P fuel (lcg r) s' (d :: acc)

def exploreLine (_ : Unit) (line : String) : Unit × String :=
  match Json.parse line with
  | .error e => ((), (Json.mkObj [("error", Json.str e)]).compress)
  | .ok j =>
    match parseProgram j with
    | .error e => ((), (Json.mkObj [("error", Json.str e)]).compress)
    | .ok P =>
      let walks := (getNat? j "walks").getD 50
      let seed := (getNat? j "seed").getD 1
      let maxSteps := (getNat? j "maxsteps").getD 2000
      let res := (List.range walks).map fun i => walk P maxSteps (lcg (seed * 1000003 + i)) init []
      let count (w : WalkEnd) := (res.filter (fun x => x.1 == w)).length
      let firstStuck := match res.find? (fun x => x.1 == .stuck) with
        | some x => x.2.1
        | none => []
      ((), (Json.mkObj [("walks", toJson walks), ("returned", toJson (count .returned)), ("stuck", toJson (count .stuck)),
                        ("timeout", toJson (count .timeout)), ("refused", toJson (count .refused)),
                        ("bad_oracle", toJson ((res.filter (fun x => x.2.2)).length)),
                        ("max_len", toJson ((res.map (fun x => x.2.1.length)).foldl max 0)),
                        ("first_stuck", jsonStrs firstStuck)]).compress)

end MLPE.Eng

/-
  Shared vocabulary of the engine models: values, exceptions, the built graph
  (what `build_dag` returns), node configuration, programs.
  No Mathlib imports (linked into the native driver).
-/
namespace MLPE

abbrev Node := Nat
abbrev Label := String

/-- pointwise update of a total map -/
def upd {α β : Type} [DecidableEq α] (f : α → β) (a : α) (b : β) : α → β :=
  fun x => if x = a then b else f x

@[simp] theorem upd_same {α β : Type} [DecidableEq α] (f : α → β) (a : α) (b : β) : upd f a b a = b := by
  simp [upd]

@[simp] theorem upd_other {α β : Type} [DecidableEq α] (f : α → β) (a x : α) (b : β) (h : x ≠ a) :
    upd f a b x = f x := by
  simp [upd, h]

/-- identity of an exception instance: class, raising node, invocation, attempt.
Engine-made errors use the classes `OneOfNoResult` / `RecNoResult` / `SwitchNoCase` (node = the
synthetic / destination node) and `Other:<PythonClass>` for lookup errors inside the engine. -/
structure Exc where
  cls  : String
  node : Nat
  inv  : Nat
  att  : Nat
  deriving DecidableEq, Repr, Inhabited

/-- node values: provenance strings, falsy constants, `None`, and the two things that must never
reach a consumer — exception objects (stored as results inside one-of scopes) and `Recurrent`. -/
inductive Val
  | none
  | str (s : String)
  | int (i : Int)
  | exc (e : Exc)
  | recur (d : Val)
  deriving DecidableEq, Repr, Inhabited

def Val.isRecur : Val → Bool
  | .recur _ => true
  | _ => false

def Val.isExc : Val → Bool
  | .exc _ => true
  | _ => false

abbrev Kwargs := List (String × Val)

inductive BodyOutcome
  | ret (v : Val)
  | raise (e : Exc)
  deriving DecidableEq, Repr, Inhabited

/-- the exception class tree of the generated programs:
`E0 <: Exception`, `E1 <: E0`, `E2 <: Exception`, `B0 <: BaseException`; `Cancelled` is
`asyncio.CancelledError` (a `BaseException`); every engine-made error is an `Exception`. -/
def isSub (c p : String) : Bool :=
  c == p || (c == "E1" && p == "E0") ||
  (p == "Exception" && c != "B0" && c != "Cancelled") || p == "BaseException"

def Exc.isException (e : Exc) : Bool := isSub e.cls "Exception"

inductive Mode | coro | inline | thread | process
  deriving DecidableEq, Repr, Inhabited

/-- retry / default / execution-mode settings of one node (RetryProtocol + TagProtocol) -/
structure NodeCfg where
  name       : String := ""
  attempts   : Option Nat := none
  delay      : Option Nat := none
  exceptions : Option (List String) := none
  useDefault : Bool := false
  mode       : Mode := .coro
  deriving Repr, Inhabited

/-- `NodeRetryPolicy.attempts`: `node.attempts or 1` -/
def NodeCfg.attemptsEff (c : NodeCfg) : Nat :=
  match c.attempts with
  | some 0 => 1
  | some k => k
  | none => 1

/-- `NodeRetryPolicy.delay`: `node.delay or 0` -/
def NodeCfg.delayEff (c : NodeCfg) : Nat := c.delay.getD 0

/-- `except retry_policy.exceptions`: `node.exceptions or (Exception,)` -/
def NodeCfg.retryable (c : NodeCfg) (e : Exc) : Bool :=
  match c.exceptions with
  | none => e.isException
  | some [] => e.isException
  | some l => l.any (isSub e.cls)

structure Edge where
  u        : Node
  v        : Node
  kwarg    : Option String := none
  isSwitch : Bool := false
  case     : Option Label := none
  deriving DecidableEq, Repr, Inhabited

structure NodeAttr where
  isSwitch     : Bool := false
  isOneofHead  : Bool := false
  oneofNodes   : List Node := []
  isOneofChild : Bool := false
  startNode    : Option Node := none
  maxIter      : Option Nat := none
  inMap        : Bool := true
  deriving Repr, Inhabited

/-- the DAG as built by `build_dag` (networkx graph + attributes) -/
structure Graph where
  nodes  : List Node
  edges  : List Edge
  attr   : Node → NodeAttr
  input  : Node
  output : Node
  /-- the order in which the builder added the nodes to the graph (`dag.graph.nodes`): the one deterministic node order
  the engine has (the node sets of sub-DAGs are Python sets) -/
  order  : List Node := []

namespace Graph

def preds (g : Graph) (n : Node) : List Node := (g.edges.filter (·.v == n)).map (·.u)
def succs (g : Graph) (n : Node) : List Node := (g.edges.filter (·.u == n)).map (·.v)
def isSwitch (g : Graph) (n : Node) : Bool := (g.attr n).isSwitch
def isOneofHead (g : Graph) (n : Node) : Bool := (g.attr n).isOneofHead

/-- `__get_descendants`: distance-1 successors in the unfiltered graph; a switch successor is
passed through (recursively). Fuel = number of nodes (the graph is acyclic). -/
def desc1Fuel (g : Graph) : Nat → Node → List Node
  | 0, _ => []
  | fuel + 1, n =>
    let ds := g.succs n
    ds ++ (ds.filter g.isSwitch).flatMap (desc1Fuel g fuel)

def desc1 (g : Graph) (n : Node) : List Node := desc1Fuel g g.nodes.length n

/-- a view: `nx.subgraph_view` with a node filter and an edge filter -/
structure View where
  okNode : Node → Bool
  okEdge : Edge → Bool

def View.full : View := ⟨fun _ => true, fun _ => true⟩

def vnodes (g : Graph) (w : View) : List Node := g.nodes.filter w.okNode

def vsuccs (g : Graph) (w : View) (n : Node) : List Node :=
  (g.edges.filter (fun e => e.u == n && w.okEdge e && w.okNode e.u && w.okNode e.v)).map (·.v)

def expand (g : Graph) (w : View) (S : List Node) : List Node :=
  (S.flatMap (g.vsuccs w)).foldl (fun acc x => if acc.contains x then acc else acc ++ [x]) S

def reachFuel (g : Graph) (w : View) : Nat → List Node → List Node
  | 0, S => S
  | f + 1, S => reachFuel g w f (g.expand w S)

/-- nodes reachable from `a` in the view (including `a`) -/
def reachSet (g : Graph) (w : View) (a : Node) : List Node := g.reachFuel w g.nodes.length [a]

/-- node set of `all_simple_paths(view, s, d)`; `none` = networkx raises `NodeNotFound`.
A source that is not visible raises; a target that is not visible does **not** (node ids are strings, and
networkx then reads the id as a set of single-character targets): the path set is simply empty. -/
def between (g : Graph) (w : View) (s d : Node) : Option (List Node) :=
  if !(g.nodes.contains s && w.okNode s) then none
  else if !(g.nodes.contains d && w.okNode d) then some []
  else if s == d then some [s]
  else
    let fromS := g.reachSet w s
    some ((g.vnodes w).filter (fun v => fromS.contains v && (g.reachSet w v).contains d))

end Graph

/-- the calls the engine makes into user-supplied collaborators (event managers, artifact store) -/
inductive Cb | nstart | ncomplete | save | pstart | pcomplete
  deriving DecidableEq, Repr, Inhabited

/-- a program: built graph + per-node configuration + node behaviour.
`body n kwargs inv att` is the outcome of the `att`-th attempt of the `inv`-th invocation (per run)
of node `n` on `kwargs`; `dflt` is `get_default(**kwargs)`. Theorems quantify over arbitrary such
functions; the driver instantiates them from the generated spec. -/
structure Program where
  g       : Graph
  cfg     : Node → NodeCfg
  body    : Node → Kwargs → Nat → Nat → BodyOutcome
  dflt    : Node → Kwargs → Val
  inputKw : Kwargs
  poolsOk : Bool := true      -- pools needed by the DAG are registered and alive (`DAG._validate_pool_executors`)
  /-- how many times the collaborators suspend (bare `await asyncio.sleep(0)`) inside the given callback -/
  cbYield : Cb → Node → Nat := fun _ _ => 0
  /-- a collaborator that fails: the given callback raises this exception (every time, before suspending) -/
  cbRaise : Cb → Node → Option Exc := fun _ _ => none
  /-- a `get_default` that fails: it raises this exception (every time it is called) instead of returning a value -/
  dfltRaise : Node → Option Exc := fun _ => none

end MLPE

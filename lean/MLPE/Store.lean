/-
  Model of `ml_pipeline_engine/artifact_store/store/filesystem.py`
  (`FileSystemArtifactStore`) — the code that exists after the `fix:` commit for C18.

  A directory tree is a finite map  (model, pipeline, file name) ↦ bytes.
  `save`  : filesystem.py `save`  — look up `<id>.<ext>` for every known format; refuse if one
            exists; otherwise serialize, and on a failing dump leave nothing behind.
  `load`  : filesystem.py `load`  — first existing `<id>.<ext>` in `DataFormat` order.

  The serializers (pickle / json) are *parameters* (`Codec`); their round trip is a hypothesis of
  the theorems and is sampled by the differential check, not proved.
  No Mathlib imports (this file is linked into the native driver).
-/

namespace MLPE.Store

inductive Fmt | pickle | json
  deriving DecidableEq, Repr, Inhabited

/-- `DataFormat` values, in declaration order (`for fmt in DataFormat`). -/
def Fmt.all : List Fmt := [.pickle, .json]

def Fmt.ext : Fmt → String
  | .pickle => ".pickle"
  | .json   => ".json"

/-- The directory `artifact_dir / model_name / pipeline_id`. -/
structure Ctx where
  model    : String
  pipeline : String
  deriving DecidableEq, Repr, Inhabited

structure Key where
  ctx  : Ctx
  node : String
  deriving DecidableEq, Repr, Inhabited

structure Path where
  ctx  : Ctx
  file : String
  deriving DecidableEq, Repr, Inhabited

/-- file system under `artifact_dir`: path ↦ content, `none` = no such file -/
abbrev FS (B : Type) := Path → Option B

def FS.empty {B} : FS B := fun _ => none

def FS.write {B} (fs : FS B) (p : Path) (b : B) : FS B :=
  fun q => if q = p then some b else fs q

def pathOf (k : Key) (f : Fmt) : Path := ⟨k.ctx, k.node ++ f.ext⟩

/-- `_find`: the first format for which `<id>.<ext>` exists. -/
def find {B} (fs : FS B) (k : Key) : Option (Fmt × B) :=
  match fs (pathOf k .pickle) with
  | some b => some (.pickle, b)
  | none =>
    match fs (pathOf k .json) with
    | some b => some (.json, b)
    | none => none

/-- serializers as parameters: `enc` may fail (unpicklable / not JSON-representable value) -/
structure Codec (V B : Type) where
  enc : Fmt → V → Option B
  dec : Fmt → B → Option V

def Codec.RoundTrip {V B} (c : Codec V B) : Prop :=
  ∀ f v b, c.enc f v = some b → c.dec f b = some v

inductive Op (V : Type)
  | save (k : Key) (v : V) (f : Fmt)
  | load (k : Key)
  deriving Repr

inductive Res (V : Type)
  | ok
  | value (v : V)
  | alreadyExists            -- ArtifactFileAlreadyExists
  | doesNotExist             -- ArtifactFileDoesNotExist
  | dumpFailed               -- the serializer raised; nothing is left behind
  | corrupt                  -- a file exists but cannot be decoded (unreachable, see `step_never_corrupt`)
  deriving DecidableEq, Repr

/-- one operation of the store -/
def step {V B} (c : Codec V B) (fs : FS B) : Op V → FS B × Res V
  | .save k v f =>
    match find fs k with
    | some _ => (fs, .alreadyExists)
    | none =>
      match c.enc f v with
      | none   => (fs, .dumpFailed)           -- file removed again by the `except` branch
      | some b => (fs.write (pathOf k f) b, .ok)
  | .load k =>
    match find fs k with
    | none => (fs, .doesNotExist)
    | some (f, b) =>
      match c.dec f b with
      | some v => (fs, .value v)
      | none   => (fs, .corrupt)

def run {V B} (c : Codec V B) : FS B → List (Op V) → FS B × List (Res V)
  | fs, [] => (fs, [])
  | fs, op :: ops =>
    let (fs', r) := step c fs op
    let (fs'', rs) := run c fs' ops
    (fs'', r :: rs)

/-! ### Specification: a write-once finite map keyed by (model, pipeline, node id) -/

abbrev Spec (V : Type) := Key → Option V

def Spec.empty {V} : Spec V := fun _ => none

def specStep {V} (canEnc : Fmt → V → Bool) (m : Spec V) : Op V → Spec V × Res V
  | .save k v f =>
    match m k with
    | some _ => (m, .alreadyExists)
    | none => if canEnc f v then ((fun q => if q = k then some v else m q), .ok) else (m, .dumpFailed)
  | .load k =>
    match m k with
    | some v => (m, .value v)
    | none   => (m, .doesNotExist)

def specRun {V} (canEnc : Fmt → V → Bool) : Spec V → List (Op V) → Spec V × List (Res V)
  | m, [] => (m, [])
  | m, op :: ops =>
    let (m', r) := specStep canEnc m op
    let (m'', rs) := specRun canEnc m' ops
    (m'', r :: rs)

/-- node ids the store is specified for: no path separator (the id is used as a file name) -/
def validId (s : String) : Bool := !s.isEmpty && !s.contains '/'

end MLPE.Store

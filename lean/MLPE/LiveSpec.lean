import MLPE.PlainSpec

/-!
# The hypotheses of the stuck-freedom theorem for pipelines with switches, in executable form

`livePB` is the decidable part of `LiveP` (`Proofs/Live.lean`): the driver evaluates it on generated programs, and
`Proofs/LiveCheck.lean` proves that it implies `LiveP` (`liveP_of_check`).
-/
namespace MLPE.Eng
open MLPE

/-- the sources the readiness check of `m` looks at, before switch sources are resolved to their selected case -/
def basePreds (P : Program) (m : Node) : List Node :=
  if P.g.isSwitch m then (P.g.edges.filter (fun e => e.v == m && e.isSwitch)).map (·.u) else P.g.preds m

def resolveSw (P : Program) (s : St) (p : Node) : Node :=
  if P.g.isSwitch p then (match s.sw p with | some (_, c) => c | none => p) else p

/-- a depth table -/
def depthOf (dl : List (Node × Nat)) (n : Node) : Nat := ((dl.find? (·.1 == n)).map (·.2)).getD 0

/-- one round of longest-path relaxation -/
def depthRound (P : Program) (dl : List (Node × Nat)) : List (Node × Nat) :=
  P.g.nodes.map fun v => (v, ((P.g.edges.filter (·.v == v)).map (fun e => depthOf dl e.u + 1)).foldl max 0)

/-- longest-path depths (an untrusted computation: `livePB` checks its result) -/
def computeDepths (P : Program) : List (Node × Nat) :=
  (List.range P.g.nodes.length).foldl (fun dl _ => depthRound P dl) (P.g.nodes.map (·, 0))

/-- the reduced DAG up to `dst` exists, ends in `dst`, is closed under dependencies, is no deeper than `dst` -/
def dagOKB (P : Program) (dl : List (Node × Nat)) (dst : Node) : Bool :=
  match reducedRef P init P.g.input dst false false false with
  | none => false
  | some d => d.dest == some dst && d.nodes.contains dst &&
      d.nodes.all (fun m => (basePreds P m).all d.nodes.contains) &&
      d.nodes.all (fun x => decide (depthOf dl x ≤ depthOf dl dst))

/-- the destinations of the reduced DAGs the engine builds for a pipeline with switches: the output, the case nodes -/
def dagDests (P : Program) : List Node := P.g.output :: (P.g.edges.filter (·.case.isSome)).map (·.u)

def livePB (P : Program) (dl : List (Node × Nat)) : Bool :=
  P.g.edges.all (fun e => decide (depthOf dl e.u < depthOf dl e.v)) &&
  !P.g.isSwitch P.g.output &&
  P.g.edges.all (fun e => !(P.g.attr e.v).oneofNodes.contains e.u) &&
  P.g.edges.all (fun e => P.g.isSwitch e.v || e.case.isNone) &&
  P.g.edges.all (fun e => !e.isSwitch || e.case.isNone) &&
  P.g.edges.all (fun e => e.case.isNone || !P.g.isSwitch e.u) &&
  (dagDests P).all (dagOKB P dl)

end MLPE.Eng

"""Verdict policy (DESIGN.md §5): from divergences / monitor hits to exit code, VIOLATION and
KNOWN-FINDING lines.  `known_findings.json` is read only, never written."""
import hashlib
import json

from . import common as C


def spec_key(spec):
    return hashlib.sha1(json.dumps(spec, sort_keys=True).encode()).hexdigest()[:12]


def replay_known(pid):
    """replay the listed findings of this property on the real code; print KNOWN-FINDING for those that still fail"""
    from . import engine_run as ER, fragment, lockstep, monitors
    kf = [f for f in C.load_known_findings().get('findings', []) if f['property'] == pid and 'spec' in f]
    still = {}
    for f in kf:
        fails = False
        # the recorded schedule first; a script is positional, so under another launch order (hash seed) it may describe a
        # different schedule — then the witness program is searched with a few random schedules
        descs = ([['script', f['choices']]] if f.get('choices') else []) + [['rand', s, p] for s in range(8) for p in (0.0, 0.3, 0.6)]
        for d in descs:
            pol = ER.ScriptPolicy(d[1]) if d[0] == 'script' else ER.Policy(__import__('random').Random(d[1]), early_p=d[2])
            tr = ER.run_program(f['spec'], pol)
            sem = None
            if f.get('use_sem'):
                sem = json.loads(C.run_driver(['sem'], [json.dumps({'graph': tr['graph'], 'spec': tr['spec']})])[0])
            mon = monitors.ALL[f.get('monitor', pid)]
            if mon(tr, sem):
                fails = True
                break
        if fails:
            print(f"KNOWN-FINDING: property={pid} {f['what']}")
        still[spec_key(f['spec'])] = f
    return still


def decide(pid, bad, prof):
    """bad = records with a divergence and/or monitor violations. returns (exit code, number of violations)"""
    known = replay_known(pid)
    viols = []
    divs = []
    for r in bad:
        if r.get('viol'):
            if spec_key(r['spec']) in known:
                continue
            viols.append(r)
        elif r.get('div'):
            divs.append(r)
    if viols:
        r = min(viols, key=lambda x: (len(x['spec']['nodes']), len(x['choices'])))
        C.report_violation(pid, {
            'property': pid, 'kind': 'failing-input', 'what': r['viol'], 'spec': r['spec'], 'choices': r['choices'],
            'in_fragment': r.get('infrag'), 'model_divergence': r.get('div'),
            'replay': './check replay <this file>', 'others': len(viols) - 1})
        return C.EXIT_VIOLATION, len(viols)
    if divs:
        # correspondence broken, and no monitor of this property fails on any explored trace
        r = min(divs, key=lambda x: (len(x['spec']['nodes']), len(x['choices'])))
        C.report_violation(pid, {
            'property': pid, 'kind': 'correspondence-broken',
            'what': 'the implementation no longer behaves like the Lean model MLPE.Eng the theorems of this property are '
                    'about; the search over the explored programs and schedules found no input on which the property '
                    'itself fails',
            'theorems_no_longer_tied': C.prop_theorems(pid),
            'first_divergence': r['div'], 'spec': r['spec'], 'choices': r['choices'],
            'divergent_traces': len(divs)}, no_input=True)
        return C.EXIT_VIOLATION, len(divs)
    return C.EXIT_OK, 0

"""seeded/RESULTS.md from the raw lines harness/matrix.sh wrote: python -m harness.mkresults <raw file>"""
import json
import sys
from pathlib import Path

ROOT = Path(__file__).resolve().parent.parent / 'seeded'


def main():
    raw = Path(sys.argv[1]).read_text().splitlines()
    rows, n_conc, n_nf, n_held = [], 0, 0, 0
    for line in raw:
        if '::' not in line:
            continue
        head, res, what = [x.strip() for x in line.split('::', 2)]
        mid, chk = head.split()
        meta = json.loads((ROOT / mid / 'meta.json').read_text())
        summ = meta.get('summary', '').replace('|', '/').replace('\n', ' ')[:150]
        what = what.split('|', 1)[1].strip() if '|' in what else what
        what = what.replace('|', '/')[:130]
        if 'VIOLATION' in res and 'no-failing-input-found' in res:
            r = 'reported, no-failing-input-found'; n_nf += 1
            if meta.get('status'):
                r += ' — ' + meta['status']
        elif 'VIOLATION' in res:
            r = 'reported, concrete failing input'; n_conc += 1
        else:
            r = 'held'; n_held += 1
            if meta.get('status'):
                r += ' — ' + meta['status']
        rows.append(f'| {mid} | {chk} | {r} | {what} | {summ} |')
    out = ['# Seeded changes × checks', '',
           'Runs of `harness/matrix.sh` over every stored change (own property\'s quick check, change applied in a scratch',
           'worktree, `MLPE_REPO` pointing at it; /repo untouched). Raw lines: `results_raw.txt`.', '',
           f'{n_conc + n_nf + n_held} changes: {n_conc} reported with a concrete failing input, {n_nf} reported with '
           f'`no-failing-input-found`, {n_held} not reported.', '',
           '| change | check | result | what the check says | the change |', '|---|---|---|---|---|'] + rows
    (ROOT / 'RESULTS.md').write_text('\n'.join(out) + '\n')
    (ROOT / 'results_raw.txt').write_text('\n'.join(l for l in raw if '::' in l) + '\n')
    print(n_conc, n_nf, n_held)


if __name__ == '__main__':
    main()

"""long background sweep on the unchanged tree: python -m harness.sweep <first seed> <n seeds> <programs per seed>
Writes every divergence / monitor hit (with spec + choices) to sweep_out.json; prints a running summary."""
import collections
import json
import sys
import time

from . import sched


def main():
    first, nseeds, nprog = int(sys.argv[1]), int(sys.argv[2]), int(sys.argv[3])
    out, tot = [], collections.Counter()
    t0 = time.time()
    for sd in range(first, first + nseeds):
        items = sched.general_items(sd, nprog, 'thorough', enum_limit=30, n_max=10)
        for it in items:
            it['cb_p'] = 0.3
        recs = sched.run_items(items)
        for r in recs:
            if 'harness_error' in r:
                tot['harness_error'] += 1
                out.append({'seed': sd, 'herr': r['harness_error']})
                continue
            tot['traces'] += 1
            if r['div']:
                tot['div'] += 1
                out.append({'seed': sd, 'div': r['div'], 'spec': r['spec'], 'choices': r['choices'], 'why': r['frag_why']})
            for pid, v in r['viol'].items():
                tot['viol ' + pid] += 1
                out.append({'seed': sd, 'pid': pid, 'viol': v, 'spec': r['spec'], 'choices': r['choices'], 'why': r['frag_why']})
        print(sd, dict(tot), round(time.time() - t0), flush=True)
        json.dump(out, open('sweep_out.json', 'w'))


if __name__ == '__main__':
    main()

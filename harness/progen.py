"""Program specs: seeded generator, real node classes built from a spec, dump of the real built DAG.

A *spec* is a JSON-able dict (declaration level):
  nodes[i] = {name, marks: [[param, mark]], plain: [params], attempts, delay, exceptions, use_default,
              mode: coro|inline|thread|process, body: {kind: prov|const|label, v}, fails: [[inv, att, cls]],
              recur_k, is_rec, has_additional}
  mark     = {kind: input, src} | {kind: switch, decider, cases: [[label, node]], name}
           | {kind: oneof, cands: [..]} | {kind: rec, start, dest, max}
  input, output (node indices), input_kwargs {param: str}
Node bodies are deterministic functions of (kwargs, invocation, attempt): provenance terms, constants
(None / 0 / '' to exercise falsy handling), labels, planned exceptions, `next_iteration` while inv < recur_k.
"""
import contextvars
import os
import random
import sys
import types
import typing as t

EXC_TREE = {'E0': 'Exception', 'E1': 'E0', 'E2': 'Exception', 'B0': 'BaseException'}


class E0(Exception):
    pass


class E1(E0):
    pass


class E2(Exception):
    pass


class B0(BaseException):
    pass


class T0(TypeError):
    """a user error that happens to be a TypeError (a failing get_default computing on its arguments)"""


class V0(ValueError):
    pass


EXC = {'E0': E0, 'E1': E1, 'E2': E2, 'B0': B0, 'T0': T0, 'V0': V0}

CURRENT_RUN = contextvars.ContextVar('mlpe_run', default=None)


def fnv1a64(s: str) -> int:
    h = 0xcbf29ce484222325
    for b in s.encode('utf-8'):
        h ^= b
        h = (h * 0x100000001b3) & 0xFFFFFFFFFFFFFFFF
    return h


def fmt_val(v) -> str:
    from ml_pipeline_engine.types import Recurrent
    if v is None:
        return 'None'
    if isinstance(v, bool):
        return 'True' if v else 'False'
    if isinstance(v, int):
        return str(v)
    if isinstance(v, str):
        return "'" + v + "'"
    if isinstance(v, Recurrent):
        return 'REC<' + fmt_val(v.data) + '>'
    if isinstance(v, BaseException):
        return 'EXC<' + exc_ident_str(v) + '>'
    return 'OBJ<' + type(v).__name__ + '>'


def compress(name: str, s: str) -> str:
    return s if len(s) <= 60 else f'{name}#{fnv1a64(s):016x}'


def prov(name: str, kwargs: dict) -> str:
    s = name + '(' + ','.join(f'{k}={fmt_val(v)}' for k, v in sorted((_key(k), v) for k, v in kwargs.items())) + ')'
    return compress(name, s)


def exc_ident(e) -> list:
    """canonical identity of an exception: [class, node, invocation, attempt]"""
    from ml_pipeline_engine.dag.errors import OneOfDoesNotHaveResultError, RecurrentSubgraphDoesNotHaveResultError
    import asyncio
    run = CURRENT_RUN.get()
    if type(e).__name__ in EXC and len(e.args) == 3:
        return [type(e).__name__, e.args[0], e.args[1], e.args[2]]
    if isinstance(e, OneOfDoesNotHaveResultError):
        return ['OneOfNoResult', _node_index(run, e.args[0]), 0, 0]
    if isinstance(e, RecurrentSubgraphDoesNotHaveResultError):
        d = e.args[0] if e.args and isinstance(e.args[0], dict) else {}
        return ['RecNoResult', _node_index(run, d.get('node_id')), 0, 0]
    if isinstance(e, asyncio.CancelledError):
        return ['Cancelled', 0, 0, 0]
    if type(e).__name__ == 'SwitchCaseDoesNotExistError' or type(e).__name__ == 'SwitchDoesNotHaveCaseError':
        return ['SwitchNoCase', _node_index(run, e.args[0]) if e.args else 0, 0, 0]
    return ['Other:' + type(e).__name__, 0, 0, 0]


import contextlib


@contextlib.contextmanager
def det_uuids(spec):
    """an unnamed switch gets `uuid4().hex[-8:]` as its node id: make the ids a function of the program, so that two builds
    of one program (a history's chart and the fresh chart it is compared with; a program and its Sem oracle) are the same
    graph.  Different programs still get different ids (and with them different launch orders)."""
    import json as _json
    import random as _random
    import uuid as _uuid
    r = _random.Random(fnv1a64(_json.dumps(spec, sort_keys=True)))
    orig = _uuid.uuid4
    _uuid.uuid4 = lambda: _uuid.UUID(int=r.getrandbits(128), version=4)
    try:
        yield
    finally:
        _uuid.uuid4 = orig


WORLD_INDEX = {'index_of': None}      # fallback when no run context is active (set by engine_run.World)


def _node_index(run, node_id):
    try:
        return run.index_of[node_id]
    except Exception:  # noqa
        try:
            return WORLD_INDEX['index_of'][node_id]
        except Exception:  # noqa
            return 0


def _key(k):
    import enum
    return k.value if isinstance(k, enum.Enum) else k


def exc_ident_str(e) -> str:
    c, n, i, a = exc_ident(e)
    return f'{c}@{n}.{i}.{a}'


def canon(v):
    """canonical JSON form of a node value / kwarg"""
    from ml_pipeline_engine.types import Recurrent
    if v is None or isinstance(v, (bool, int, str)):
        return v
    if isinstance(v, Recurrent):
        return {'rec': canon(v.data)}
    if isinstance(v, BaseException):
        return {'exc': exc_ident(v)}
    return {'obj': type(v).__name__}


# ------------------------------------------------------------------ real classes from a spec

def topo_decl_order(spec):
    """declaration order: every node after the nodes its marks mention"""
    nodes = spec['nodes']
    deps = {i: set() for i in range(len(nodes))}
    for i, n in enumerate(nodes):
        for _, m in n['marks']:
            deps[i] |= set(mark_targets(m))
    order, seen = [], set()

    def visit(i, stack=()):
        if i in seen:
            return
        if i in stack:
            raise ValueError('cyclic declarations')
        for j in sorted(deps[i]):
            visit(j, stack + (i,))
        seen.add(i)
        order.append(i)
    for i in range(len(nodes)):
        visit(i)
    return order


def mark_targets(m):
    k = m['kind']
    if k == 'input':
        return [m['src']]
    if k == 'switch':
        return [m['decider']] + [c for _, c in m['cases']]
    if k == 'oneof':
        return list(m['cands'])
    if k == 'rec':
        return [m['start'], m['dest']]
    if k == 'generic':
        return [m['src']]
    raise ValueError(k)


def node_ident(n) -> str:
    """what get_node_id gives for the generated class"""
    return ('node__' if n.get('defect') == 'no_base' else 'processor__') + n['name']


def class_source(spec) -> str:
    L = ['import typing as t',
         'from ml_pipeline_engine.node.base_nodes import ProcessorBase, RecurrentProcessor',
         'from ml_pipeline_engine.node import build_node',
         'from ml_pipeline_engine.types import NodeBase',
         'from ml_pipeline_engine.dag_builders.annotation.marks import Input, SwitchCase, InputOneOf, RecurrentSubGraph, InputGeneric',
         'from harness.progen import E0, E1, E2, B0',
         '']
    nodes = spec['nodes']
    if any(gbase_ok(n) for n in nodes):
        # one generic base class for several processing nodes: each is derived from it with build_node(…, attrs={…}) and the
        # default class name, and differs only in what `attrs` sets (its index — which body it is — and its retry settings)
        L += ['class GBase(ProcessorBase):',
              "    name = 'gbase'",
              '    async def process(self, a: InputGeneric(NodeBase)):',
              '        return await H.abody(self._idx, self, dict(a=a))',
              '    def get_default(self, **kwargs):',
              '        return H.default(self._idx, kwargs)',
              '']
    for i in topo_decl_order(spec):
        n = nodes[i]
        if gbase_ok(n):
            attrs = {'_idx': i}
            for k in ('attempts', 'delay', 'use_default'):
                if n.get(k) is not None and n.get(k) is not False:
                    attrs[k] = n[k]
            a = ', '.join(f'{k!r}: {v!r}' for k, v in attrs.items())
            if n.get('exceptions') is not None:
                a += ", 'exceptions': (" + ''.join(c + ', ' for c in n['exceptions']) + ')'
            src = n['marks'][0][1]['src']
            L.append(f'{n["name"]} = build_node(GBase, node_name={n["name"]!r}, a=Input({nodes[src]["name"]}), '
                     'attrs={' + a + '})')
            L.append('')
            continue
        defect = n.get('defect')
        generic = bool(n.get('generic'))
        # a generic *input* node: built with build_node(…, dependencies_default={…}); it takes an optional input key
        gen_in = bool(n.get('generic_input')) and not defect and not n['marks']
        base = 'RecurrentProcessor' if n.get('is_rec') else 'ProcessorBase'
        cname = n['name'] + ('Base' if generic or gen_in else '') + ('_cls' if defect == 'not_class' else '')
        if defect == 'no_base':
            L.append(f'class {cname}:')
            L.append('    node_type = None')
            L.append('    tags = ()')
            L.append('    attempts = None; delay = None; exceptions = None; use_default = False; verbose_name = None')
        else:
            L.append(f'class {cname}({base}):')
        L.append(f'    name = {n["name"]!r}')
        if n.get('attempts') is not None:
            L.append(f'    attempts = {n["attempts"]}')
        if n.get('delay') is not None:
            L.append(f'    delay = {n["delay"]}')
        if n.get('exceptions') is not None:
            L.append('    exceptions = (' + ''.join(c + ', ' for c in n['exceptions']) + ')')
        if n.get('use_default'):
            L.append('    use_default = True')
        mode = n.get('mode', 'coro')
        if mode == 'inline':
            L.append("    tags = ('non_async',)")
        elif mode == 'process':
            L.append("    tags = ('process',)")
        params = []
        for p in n.get('plain', []):
            params.append(f'{p}: str')
        for p, m in n['marks']:
            if generic and m['kind'] != 'generic':
                params.append(f'{p}: InputGeneric(NodeBase)')
            else:
                params.append(f'{p}: {mark_source(nodes, m)}')
        if n.get('has_additional'):
            params.append('additional_data: t.Optional[t.Any] = None')
        if defect == 'no_annotations':
            params = [q.split(':')[0] for q in params] or ['zz']
        if defect == 'unannotated':
            if not params:
                params.append('yy: int = 0')
            # the parameter that lacks its annotation may be of any kind (the validators look at the signature)
            uk = n.get('unannotated_kind', 'pos')
            if uk == 'pos':
                params.insert(0, 'zz')
            elif uk == 'kwonly':
                params.append('*, zz')
            elif uk == 'kwonly_default':
                params.append('*, zz=None')
            elif uk == 'varkw':
                params.append('**zz')
            else:
                params.append('*zz')
        names = [p for p in n.get('plain', [])] + [p for p, _ in n['marks']]
        kw = 'dict(' + ', '.join(f'{p}={p}' for p in names) + ')'
        extra = ''
        if gen_in:
            params += ['opt: t.Optional[str] = None', "dd: str = ''"]
            extra += '\n        if opt is not None: kw["opt"] = opt'
        if n.get('has_additional'):
            extra = f'\n        if additional_data is not None: kw["additional_data"] = additional_data'
        sig = ', '.join(['self'] + params)
        if mode == 'coro':
            L.append(f'    async def process({sig}):')
            L.append(f'        kw = {kw}{extra}')
            L.append(f'        return await H.abody({i}, self, kw)')
        else:
            L.append(f'    def process({sig}):')
            L.append(f'        kw = {kw}{extra}')
            L.append(f'        return H.sbody({i}, self, kw)')
        L.append('    def get_default(self, **kwargs):')
        L.append(f'        return H.default({i}, kwargs)')
        if defect == 'no_process':
            L.append('    process = None')
        L.append('')
        if generic:
            deps = ', '.join(f'{p}={mark_source(nodes, m)}' for p, m in n['marks'] if m['kind'] != 'generic')
            L.append(f'{n["name"]} = build_node({cname}, node_name={n["name"]!r}, class_name={n["name"]!r}'
                     + (', ' + deps if deps else '') + ')')
            L.append('')
        if gen_in:
            L.append(f'{n["name"]} = build_node({cname}, node_name={n["name"]!r}, class_name={n["name"]!r}, '
                     "dependencies_default={'dd': 'D'})")
            L.append('')
        if defect == 'not_class':
            L.append(f'{n["name"]} = {cname}()')
            L.append('')
    return '\n'.join(L)


def gbase_ok(n):
    """can this node be derived from the shared generic base class: one plain Input parameter `a`, a coroutine, nothing else"""
    return bool(n.get('gbase')) and not n.get('defect') and not n.get('generic') and not n.get('plain') \
        and len(n['marks']) == 1 and n['marks'][0][0] == 'a' and n['marks'][0][1]['kind'] == 'input' \
        and n.get('mode', 'coro') == 'coro' and not n.get('is_rec') and not n.get('has_additional') \
        and (n.get('body') or {}).get('kind', 'prov') == 'prov'


def mark_source(nodes, m):
    nm = lambda j: nodes[j]['name']  # noqa
    k = m['kind']
    if k == 'input':
        return f'Input({nm(m["src"])})'
    if k == 'switch':
        cases = ', '.join(f'({lab!r}, {nm(c)})' for lab, c in m['cases'])
        return f'SwitchCase(switch={nm(m["decider"])}, cases=[{cases}], name={m.get("name")!r})'
    if k == 'oneof':
        return 'InputOneOf([' + ', '.join(nm(c) for c in m['cands']) + '])'
    if k == 'rec':
        return f'RecurrentSubGraph(start_node={nm(m["start"])}, dest_node={nm(m["dest"])}, max_iterations={m["max"]})'
    if k == 'generic':
        return f'InputGeneric({nm(m["src"])})'
    raise ValueError(k)


_mod_counter = [0]


_scratch = {'dir': None}


def scratch_dir():
    import atexit
    import shutil
    import tempfile
    if _scratch['dir'] is None:
        _scratch['dir'] = tempfile.mkdtemp(prefix='mlpe_gen_')
        sys.path.insert(0, _scratch['dir'])
        atexit.register(lambda: shutil.rmtree(_scratch['dir'], ignore_errors=True))
    return _scratch['dir']


def build_classes(spec, H, as_file=False, header=None):
    """exec the generated source in a fresh module; returns {index: class}.
    as_file=True writes a real module file (in a scratch directory removed at exit) so that `inspect` finds sources."""
    _mod_counter[0] += 1
    name = f'mlpe_gen_{os.getpid()}_{_mod_counter[0]}'
    src = class_source(spec)
    if as_file:
        import importlib.util
        path = os.path.join(scratch_dir(), name + '.py')
        with open(path, 'w') as f:
            f.write((header or 'H = None\n') + src)
        sp = importlib.util.spec_from_file_location(name, path)
        mod = importlib.util.module_from_spec(sp)
        sys.modules[name] = mod
        mod.H = H
        code = compile(open(path).read(), path, 'exec')
        exec(code, mod.__dict__)
        if header is None:
            mod.H = H
    else:
        mod = types.ModuleType(name)
        mod.H = H
        exec(compile(src, mod.__name__, 'exec'), mod.__dict__)
    return {i: getattr(mod, n['name']) for i, n in enumerate(spec['nodes'])}, src


def dump_graph(dag, spec):
    """canonical description of the REAL built DAG (input of the Lean engine model).
    Real nodes keep their spec index; synthetic nodes get fresh indices in sorted-id order."""
    from ml_pipeline_engine.node import get_node_id  # noqa
    idx = {}
    for i, n in enumerate(spec['nodes']):
        idx[node_ident(n)] = i
    k = len(spec['nodes'])

    def synth_key(nid):
        # an unnamed switch gets a random id from the builder: order the synthetic nodes by what they are attached to
        # (kind, consumers with the parameter they feed, sources), not by their id
        succ = sorted((idx.get(v, 10 ** 6), str(dag.graph.edges[nid, v].get('kwarg_name'))) for v in dag.graph.successors(nid))
        pred = sorted((idx.get(u, 10 ** 6), str(dag.graph.edges[u, nid].get('case_branch'))) for u in dag.graph.predecessors(nid))
        return (succ, pred, nid)
    for nid in sorted((n for n in dag.graph.nodes if n not in idx), key=synth_key):
        idx[nid] = k
        k += 1
    nodes = []
    for nid, a in dag.graph.nodes(data=True):
        nodes.append({
            'id': idx[nid], 'name': nid, 'in_map': nid in dag.node_map,
            'is_switch': a.get('is_switch') is True,
            'is_oneof_head': bool(a.get('is_oneof')),
            'oneof_nodes': [idx[x] for x in a.get('oneof_nodes', [])],
            'is_oneof_child': bool(a.get('is_oneof_child')),
            'start_node': idx.get(a.get('start_node')) if a.get('start_node') is not None else None,
            'max_iter': a.get('max_iterations'),
        })
    nodes.sort(key=lambda d: d['id'])
    edges = []
    for u, v, a in dag.graph.edges(data=True):
        edges.append({'u': idx[u], 'v': idx[v], 'kwarg': a.get('kwarg_name'),
                      'is_switch': bool(a.get('is_switch')), 'case': a.get('case_branch')})
    # the in-edges of every node in the order of `graph.predecessors(node)` (the order in which the engine reads the
    # dependencies of a node: which of two failed dependencies a consumer fails with, which of two equal labels wins)
    ppos = {(idx[u], idx[v]): k for v in dag.graph.nodes for k, u in enumerate(dag.graph.predecessors(v))}
    edges.sort(key=lambda e: (e['v'], ppos[(e['u'], e['v'])]))
    return {'nodes': nodes, 'edges': edges, 'input': idx[dag.input_node], 'output': idx[dag.output_node],
            'order': [idx[nid] for nid in dag.graph.nodes], 'n': k}, idx


# ------------------------------------------------------------------ generator

PROFILES = {
    # name: (switch, oneof, rec, share)  probabilities that a new mark is of that kind / shares nodes
    'plain':   dict(sw=0.0, one=0.0, rec=0.0, share=1.0),
    'switch':  dict(sw=0.35, one=0.0, rec=0.0, share=0.0),
    'oneof':   dict(sw=0.0, one=0.35, rec=0.0, share=0.0),
    'rec':     dict(sw=0.0, one=0.0, rec=0.5, share=0.0),
    'mixed':   dict(sw=0.2, one=0.2, rec=0.15, share=0.0),
    'shared':  dict(sw=0.25, one=0.25, rec=0.1, share=0.5),
}


def gen_spec(rng: random.Random, profile='plain', n_min=3, n_max=8, fail_p=0.15, modes=('coro',),
             retry_p=0.3, falsy_p=0.15, cb_p=0.0, hash_fail_p=0.0, cbraise_p=0.0):
    """generate a spec; for a construct profile, retry (same PRNG stream) when pruning left a plain pipeline"""
    for _ in range(4):
        spec = _gen_spec(rng, profile, n_min, n_max, fail_p, modes, retry_p, falsy_p, cb_p, hash_fail_p)
        if profile == 'plain' or shape_class(spec) != 'plain':
            break
    if cbraise_p and rng.random() < cbraise_p:
        # one failing collaborator call site: an event callback or the artifact store raises (every time it is called)
        kind = rng.choice(['nstart', 'ncomplete', 'ncomplete', 'save', 'save', 'pstart', 'pcomplete'])
        cls = rng.choice(['E0', 'E1', 'E2', 'B0'])
        if kind in ('pstart', 'pcomplete'):
            spec['cbraise'] = {kind: cls}
        else:
            spec['cbraise'] = {kind: {str(rng.randrange(len(spec['nodes']))): cls}}
    return spec


def _gen_spec(rng, profile, n_min, n_max, fail_p, modes, retry_p, falsy_p, cb_p, hash_fail_p):
    """generate a declaration-level spec. Nodes are created in dependency order; the last node is the
    output; nodes the output cannot reach are dropped (build_dag never sees them)."""
    P = PROFILES[profile]
    n = rng.randint(n_min, n_max)
    nodes = [dict(name='N0', marks=[], plain=['x'], attempts=None, delay=None, exceptions=None, use_default=False,
                  mode=rng.choice(modes), body={'kind': 'prov'}, fails=[], recur_k=0, is_rec=False,
                  has_additional=False)]
    refs = {0: 99}       # how many marks reference a node (input is always shareable)
    reserved = set()     # private construct targets: no later mark may mention them
    sw_count = [0]

    def pick(earlier, private):
        if private:
            free = [j for j in earlier if refs.get(j, 0) == 0 and j != 0 and j not in reserved]
            if free:
                j = rng.choice(free)
                reserved.add(j)
                return j
            return None
        cand = [j for j in earlier if j not in reserved]
        return rng.choice(cand) if cand else None

    for i in range(1, n):
        earlier = list(range(i))
        nd = dict(name=f'N{i}', marks=[], plain=[], attempts=None, delay=None, exceptions=None, use_default=False,
                  mode=rng.choice(modes), body={'kind': 'prov'}, fails=[], recur_k=0, is_rec=False,
                  has_additional=False)
        nmarks = rng.choice([0, 1, 1, 2, 2, 3]) if i > 1 else rng.choice([0, 1])
        used_params = 0
        direct = set()      # sources already bound to a parameter of this node (no parallel parameters)
        for _ in range(nmarks):
            r = rng.random()
            r = _kind_roll(rng, P)
            private = rng.random() >= P['share']
            pname = 'abcdefgh'[used_params]
            if r == 'sw' and i >= 3:
                dec = pick(earlier, False)
                if dec is None:
                    continue
                ncases = rng.randint(1, 3)
                cases = []
                # some switches have a falsy label ('' — like False or 0 in a boolean / integer switch)
                falsy = rng.random() < 0.15
                for ci in range(ncases):
                    c = pick(earlier, private)
                    if c is None or c == dec:
                        continue
                    cases.append(['' if falsy and ci == 0 else f'l{ci}', c])
                    refs[c] = refs.get(c, 0) + 1
                if not cases:
                    continue
                refs[dec] = refs.get(dec, 0) + 1
                labels = [c[0] for c in cases]
                lab = rng.choice(labels) if rng.random() > 0.12 else 'unknown'
                if nodes[dec]['body']['kind'] not in ('label', 'labels') and dec != 0:
                    if rng.random() < 0.3:
                        # the decision may change between invocations (visible when the switch is re-evaluated in a
                        # recurrent iteration)
                        nodes[dec]['body'] = {'kind': 'labels',
                                              'v': [lab] + [rng.choice(labels + ['unknown']) for _ in range(rng.randint(1, 2))]}
                    else:
                        nodes[dec]['body'] = {'kind': 'label', 'v': lab}
                elif dec == 0:
                    continue_ok = False  # the input node cannot be a decider with a constant label
                    for lab_, c in cases:
                        refs[c] -= 1
                    refs[dec] -= 1
                    continue
                # half of the switches are unnamed (SwitchCase(..., name=None): the builder invents the node id)
                nd['marks'].append([pname, {'kind': 'switch', 'decider': dec, 'cases': cases,
                                            'name': f'sw{sw_count[0]}' if rng.random() < 0.5 else None}])
                sw_count[0] += 1
                used_params += 1
            elif r == 'one' and i >= 2:
                cands = []
                for _c in range(rng.randint(1, 3)):
                    c = pick(earlier, private)
                    if c is None or c in cands or c == 0:
                        continue
                    cands.append(c)
                    refs[c] = refs.get(c, 0) + 1
                if not cands:
                    continue
                nd['marks'].append([pname, {'kind': 'oneof', 'cands': cands}])
                used_params += 1
            elif r == 'rec' and i >= 2:
                dest = pick([j for j in earlier if j != 0], private)
                if dest is None or dest in direct:
                    continue
                direct.add(dest)
                anc = {a for a in ancestors(nodes, dest) - {0} if a < len(nodes) and not is_synthetic_free(nodes, a)}
                start = rng.choice(sorted(anc | {dest}))
                if rng.random() < 0.08:
                    start = 0          # the input node itself restarts the subgraph: it gets the caller's kwargs + additional_data
                mx = rng.randint(0, 3)
                nodes[dest]['is_rec'] = True
                nodes[dest]['recur_k'] = rng.randint(0, mx + 1)
                nodes[dest]['use_default'] = rng.random() < 0.5
                nodes[start]['has_additional'] = True
                refs[dest] = refs.get(dest, 0) + 1
                nd['marks'].append([pname, {'kind': 'rec', 'start': start, 'dest': dest, 'max': mx}])
                used_params += 1
            else:
                src = pick(earlier, False)
                if src is None or src in direct:
                    continue           # parallel parameters are a separate, listed finding (C15)
                direct.add(src)
                refs[src] = refs.get(src, 0) + 1
                nd['marks'].append([pname, {'kind': 'input', 'src': src}])
                used_params += 1
        nodes.append(nd)

    # a collecting output: the last node also reads (plain Input) nodes nobody references, so that less of the
    # generated structure is pruned away
    if rng.random() < 0.6:
        out = nodes[-1]
        have = {tgt for _, m in out['marks'] for tgt in mark_targets(m)}
        free = [j for j in range(1, n - 1) if refs.get(j, 0) == 0 and j not in reserved and j not in have]
        rng.shuffle(free)
        for j in free[:max(0, 6 - len(out['marks']))]:
            pname = 'abcdefgh'[len(out['marks'])]
            out['marks'].append([pname, {'kind': 'input', 'src': j}])
            refs[j] = 1

    # behaviours
    for i, nd in enumerate(nodes):
        if i == 0:
            continue
        if rng.random() < retry_p:
            nd['attempts'] = rng.choice([None, 1, 2, 3])
            nd['delay'] = rng.choice([None, 0, 1, 2])
            nd['exceptions'] = rng.choice([None, ['E0'], ['E1'], ['E0', 'E2'], ['E2']])
        if not nd['is_rec'] and rng.random() < 0.2:
            nd['use_default'] = True
            if rng.random() < 0.2:
                # a default that fails itself (never for a recurrent destination: the forced default's retry loop is not modelled)
                nd['dflt_raise'] = rng.choice(['T0', 'V0', 'E2', 'E0', 'T0'])
        if rng.random() < fail_p:
            k = rng.choice([1, 1, 2, 3])
            cls = rng.choice(['E0', 'E1', 'E2', 'E1', 'E0'])
            nd['fails'] = [[0, a, cls] for a in range(1, k + 1)]
        if hash_fail_p and rng.random() < hash_fail_p and nd['marks']:
            nd['fail_hash'] = [2, rng.randrange(2), rng.choice(['E0', 'E1', 'E2'])]
        if nd['body']['kind'] == 'prov' and rng.random() < falsy_p:
            nd['body'] = {'kind': 'const', 'v': rng.choice([None, 0, ''])}
    if not nodes[0].get('has_additional') and rng.random() < 0.15:
        nodes[0]['generic_input'] = True      # (a build_node-derived class cannot be a recurrent start node)
    if rng.random() < 0.2:
        # several processing nodes derived from one generic base class (build_node with attrs)
        el = [nd for nd in nodes[1:] if gbase_ok(dict(nd, gbase=True))]
        if len(el) >= 2:
            for nd in rng.sample(el, min(len(el), 3)):
                nd['gbase'] = True
    spec = {'nodes': nodes, 'input': 0, 'output': n - 1, 'input_kwargs': {'x': rng.choice(['v', 'w', ''])}}
    spec = prune(spec)
    if cb_p and rng.random() < cb_p:
        # suspending collaborators: how many bare yields each callback makes (per node index of the built graph;
        # synthetic nodes never get callbacks)
        cb = {'nstart': {}, 'ncomplete': {}, 'save': {}}
        for i in range(len(spec['nodes'])):
            for kind in cb:
                if rng.random() < 0.35:
                    cb[kind][str(i)] = rng.choice([1, 1, 2])
        cb['pstart'] = rng.choice([0, 0, 1])
        cb['pcomplete'] = rng.choice([0, 0, 1])
        spec['cb'] = cb
    return spec


def is_synthetic_free(nodes, a):
    return False


def _kind_roll(rng, P):
    r = rng.random()
    if r < P['sw']:
        return 'sw'
    if r < P['sw'] + P['one']:
        return 'one'
    if r < P['sw'] + P['one'] + P['rec']:
        return 'rec'
    return 'input'


def ancestors(nodes, i):
    seen, stack = set(), [i]
    while stack:
        j = stack.pop()
        for _, m in nodes[j]['marks']:
            for tgt in mark_targets(m):
                if tgt not in seen:
                    seen.add(tgt)
                    stack.append(tgt)
        if not nodes[j]['marks'] and j != 0:
            seen.add(0)
    return seen


def prune(spec):
    """drop nodes the output cannot reach; renumber"""
    nodes = spec['nodes']
    keep = ancestors(nodes, spec['output']) | {spec['output'], spec['input']}
    order = sorted(keep)
    ren = {old: new for new, old in enumerate(order)}
    out = []
    for old in order:
        nd = dict(nodes[old])
        nd['name'] = f'N{ren[old]}'
        marks = []
        for p, m in nd['marks']:
            m = dict(m)
            if m['kind'] == 'input':
                m['src'] = ren[m['src']]
            elif m['kind'] == 'switch':
                m['decider'] = ren[m['decider']]
                m['cases'] = [[lab, ren[c]] for lab, c in m['cases']]
            elif m['kind'] == 'oneof':
                m['cands'] = [ren[c] for c in m['cands']]
            elif m['kind'] == 'rec':
                m['start'] = ren[m['start']]
                m['dest'] = ren[m['dest']]
            marks.append([p, m])
        nd['marks'] = marks
        out.append(nd)
    # a node only behaves as a recurrent destination / start node if a surviving mark declares it so
    dests = {m['dest'] for nd in out for _, m in nd['marks'] if m['kind'] == 'rec'}
    starts = {m['start'] for nd in out for _, m in nd['marks'] if m['kind'] == 'rec'}
    for i, nd in enumerate(out):
        if i not in dests:
            if nd.get('is_rec'):
                nd['use_default'] = False
            nd['is_rec'] = False
            nd['recur_k'] = 0
        if i not in starts:
            nd['has_additional'] = False
    res = {'nodes': out, 'input': ren[spec['input']], 'output': ren[spec['output']],
           'input_kwargs': spec['input_kwargs']}
    if 'cb' in spec:
        res['cb'] = spec['cb']
    return res


def shape_class(spec) -> str:
    kinds = set()
    for n in spec['nodes']:
        for _, m in n['marks']:
            kinds.add(m['kind'])
    kinds.discard('input')
    return '+'.join(sorted(kinds)) or 'plain'

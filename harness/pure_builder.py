"""C15 / C16 — differential check of `build_dag` against the Lean model `MLPE.Builder`.

C15: for every generated, well-formed declaration set the real built DAG (nodes + attributes, edges +
attributes, node map, pool flags) must equal what `Builder.build` computes — the function theorem
`C15_*` relates to the declared dependency relation.
C16: every valid declaration set builds; every single-defect mutation of it, with the defect at any node
the output can reach (behind any mark kind), is rejected with the specific error; a defect at a node the
output cannot reach is not looked at.
"""
import copy
import json
import random
import sys

from . import common as C
from . import progen

DEFECTS = ['not_class', 'no_base', 'no_process', 'no_annotations', 'unannotated', 'generic',
           'rec_dest_no_protocol', 'rec_start_no_additional']
EXPECT = {
    'not_class': 'IncorrectTypeClass', 'no_base': 'IncorrectBaseClass', 'no_process': 'RunMethodExpectedError',
    'no_annotations': 'UndefinedAnnotation', 'unannotated': 'UndefinedParamAnnotation',
    'generic': 'NonRedefinedGenericTypeError', 'rec_dest_no_protocol': 'IncorrectRecurrentMixinClass',
    'rec_start_no_additional': 'IncorrectParamsRecurrentNode',
}


class _H:
    """stand-in for the run-time harness object the generated classes refer to (never called here)"""

    def abody(self, *a):
        raise RuntimeError

    sbody = default = abody


def real_dump(spec):
    """canonical dump of the real build, or {'build_error': class name}"""
    from ml_pipeline_engine.dag_builders.annotation.builder import build_dag
    try:
        classes, _ = progen.build_classes(spec, _H())
    except Exception as e:  # noqa  — declarations that cannot even be written down
        return {'decl_error': type(e).__name__ + ':' + str(e)[:80]}
    try:
        dag = build_dag(input_node=classes[spec['input']], output_node=classes[spec['output']])
    except Exception as e:  # noqa
        return {'build_error': type(e).__name__}
    nodes = sorted([nid, a.get('is_switch') is True, bool(a.get('is_oneof')), list(a.get('oneof_nodes', [])),
                    bool(a.get('is_oneof_child')), a.get('start_node'), a.get('max_iterations')]
                   for nid, a in dag.graph.nodes(data=True))
    edges = sorted([u, v, a.get('kwarg_name'), bool(a.get('is_switch')), a.get('case_branch')]
                   for u, v, a in dag.graph.edges(data=True))
    # the node map must resolve every id to the declared class of that name
    wrong = [nid for nid, cls in dag.node_map.items()
             if getattr(cls, 'name', None) != nid.split('__', 1)[1]]
    return {'nodes': json.loads(json.dumps(nodes, sort_keys=True)), 'edges': json.loads(json.dumps(edges)),
            'node_map': sorted(dag.node_map), 'input': dag.input_node, 'output': dag.output_node,
            'process_pool': bool(dag.is_process_pool_needed), 'thread_pool': bool(dag.is_thread_pool_needed),
            'node_map_wrong_class': wrong}


def model_line(spec):
    nodes = []
    for n in spec['nodes']:
        d = dict(n)
        d['ident'] = progen.node_ident(n)
        nodes.append(d)
    return json.dumps({'nodes': nodes, 'input': spec['input'], 'output': spec['output']})


import re

_ANON = re.compile(r'^switch__(?:[0-9a-f]{8}|anon:.*)$')


def rename_anon(d):
    """unnamed switches get a random id in the real build and a structural id in the model: rename both by the
    signature (incoming and outgoing edges) of the switch node"""
    if 'nodes' not in d:
        return d
    anon = [n[0] for n in d['nodes'] if _ANON.match(n[0])]
    if not anon:
        return d
    sig = {}
    for a in anon:
        ins = sorted((e[0], e[2], e[3], e[4]) for e in d['edges'] if e[1] == a)
        outs = sorted((e[1], e[2]) for e in d['edges'] if e[0] == a)
        sig[a] = json.dumps([ins, outs])
    ren = {a: 'switch__ANON%d' % k for k, a in enumerate(sorted(anon, key=lambda x: (sig[x], )))}
    # equal signatures are interchangeable
    d = json.loads(json.dumps(d))
    for n in d['nodes']:
        n[0] = ren.get(n[0], n[0])
    for e in d['edges']:
        e[0] = ren.get(e[0], e[0])
        e[1] = ren.get(e[1], e[1])
    return d


def canon(d):
    d = rename_anon(d)
    if 'nodes' in d:
        d = dict(d)
        d['nodes'] = sorted(d['nodes'], key=json.dumps)
        d['edges'] = sorted(d['edges'], key=json.dumps)
        d.pop('node_map_wrong_class', None)
    return json.dumps(d, sort_keys=True)


def reachable(spec):
    """nodes `_traverse_breadth_first_to_dag` visits (order-free definition): from the output along mark targets
    (for a recurrent mark: the destination only), plus the input node iff some visited node has no marks"""
    nodes = spec['nodes']
    seen, st = {spec['output']}, [spec['output']]
    while st:
        i = st.pop()
        marks = nodes[i]['marks']
        tg = []
        for _, m in marks:
            k = m['kind']
            tg += ([m['src']] if k in ('input', 'generic') else
                   [m['decider']] + [c for _, c in m['cases']] if k == 'switch' else
                   list(m['cands']) if k == 'oneof' else [m['dest']])
        if not marks and i != spec['input']:
            tg.append(spec['input'])
        for j in tg:
            if j not in seen:
                seen.add(j)
                st.append(j)
    return seen


def mutate(spec, rng):
    """single-defect mutation; returns (spec', defect kind, node index, reachable?) or None"""
    sp = copy.deepcopy(spec)
    kind = rng.choice(DEFECTS)
    nodes = sp['nodes']
    if kind in ('rec_dest_no_protocol', 'rec_start_no_additional'):
        recs = [(i, m) for i, n in enumerate(nodes) for _, m in n['marks'] if m['kind'] == 'rec']
        if not recs:
            return None
        owner, m = rng.choice(recs)
        if kind == 'rec_dest_no_protocol':
            tgt = m['dest']
            nodes[tgt]['is_rec'] = False
        else:
            tgt = m['start']
            if any(mm['kind'] == 'rec' and mm['dest'] == tgt and False for _, mm in nodes[tgt]['marks']):
                return None
            nodes[tgt]['has_additional'] = False
        return sp, kind, tgt, owner in reachable(sp)
    tgt = rng.randrange(len(nodes))
    if nodes[tgt].get('generic'):
        return None          # the wrapper of a generic node hides its signature from the validators
    if kind == 'generic':
        src = rng.randrange(len(nodes))
        if src == tgt or src in progen.ancestors(nodes, tgt) and False:
            pass
        # the un-rebound generic input must not create a declaration cycle: point it at an earlier node
        cands = [j for j in range(tgt)]
        if not cands:
            return None
        used = len(nodes[tgt]['marks'])
        pos = rng.randint(0, used)
        nodes[tgt]['marks'].insert(pos, ['g' + str(used), {'kind': 'generic', 'src': rng.choice(cands)}])
    else:
        nodes[tgt]['defect'] = kind
        if kind == 'unannotated':
            nodes[tgt]['unannotated_kind'] = rng.choice(['pos', 'pos', 'kwonly', 'kwonly_default', 'varkw', 'varpos'])
        if kind in ('no_annotations',) and not (nodes[tgt]['marks'] or nodes[tgt].get('plain') or nodes[tgt].get('has_additional')):
            pass        # class_source adds a dummy parameter
    return sp, kind, tgt, tgt in reachable(sp)


def _direct_sources(n):
    out = set()
    for _, m in n['marks']:
        if m['kind'] in ('input', 'generic'):
            out.add(m['src'])
        elif m['kind'] == 'rec':
            out.add(m['dest'])
    return out


def reuse_marks(sp, rng):
    """the same declared dependency used by a second consumer (shared constructs), and unnamed switches"""
    nodes = sp['nodes']
    for _ in range(rng.choice([0, 1, 1, 2])):
        owners = [j for j, n in enumerate(nodes) if n['marks']]
        if not owners:
            break
        j = rng.choice(owners)
        _, m = rng.choice(nodes[j]['marks'])
        later = [i for i in range(j + 1, len(nodes))]
        if not later:
            continue
        i = rng.choice(later)
        if m['kind'] in ('input', 'generic') and m['src'] in _direct_sources(nodes[i]):
            continue
        if m['kind'] == 'rec' and m['dest'] in _direct_sources(nodes[i]):
            continue
        if m['kind'] == 'switch' and any(mm['kind'] == 'switch' and mm['name'] == m['name'] for _, mm in nodes[i]['marks']):
            continue
        nodes[i]['marks'].append(['r%d' % len(nodes[i]['marks']), json.loads(json.dumps(m))])
    for n in nodes:
        for _, m in n['marks']:
            if m['kind'] == 'switch' and rng.random() < 0.3:
                m['name'] = None        # SwitchCase(..., name=None): a fresh random id per mark
    return sp


def gen_valid(rng, i):
    prof = ['plain', 'switch', 'oneof', 'rec', 'mixed', 'shared'][i % 6]
    sp = progen.gen_spec(rng, prof, 3, 9, modes=('coro', 'inline', 'thread', 'process'))
    sp = reuse_marks(sp, rng)
    # some nodes are build_node-derived generic nodes
    for n in sp['nodes'][1:]:
        # (a build_node-derived class exposes only the re-bound annotations, so it cannot be a recurrent start node)
        if rng.random() < 0.15 and n['marks'] and not n.get('has_additional'):
            n['generic'] = True
    return sp


def main_for(pid, tier_):
    T = C.Timer()
    sys.path.insert(0, str(C.REPO))
    aud = C.audit(pid)
    rng = random.Random(C.seed() * 131 + (15 if pid == 'C15' else 16))
    n = 500 if tier_ == 'quick' else 6000
    cases = []       # (spec, expectation or None)
    for i in range(n):
        sp = gen_valid(rng, i)
        cases.append((sp, None, None, None))
        if pid == 'C16':
            for _ in range(3 if tier_ == 'quick' else 6):
                mu = mutate(sp, rng)
                if mu:
                    cases.append(mu)
    lines = [model_line(c[0]) for c in cases]
    mout = C.run_driver(['build'], lines)
    bad, kinds, shapes = [], {}, {}
    for (sp, kind, tgt, reach), mo in zip(cases, mout):
        real = real_dump(sp)
        mod = json.loads(mo)
        k = real.get('build_error') or ('ok' if 'nodes' in real else 'decl')
        kinds[k] = kinds.get(k, 0) + 1
        if 'decl_error' in real:
            continue
        sh = progen.shape_class(sp)
        shapes[sh] = shapes.get(sh, 0) + 1
        why = None
        if canon(real) != canon(mod):
            why = 'built DAG differs from the model' if 'nodes' in real and 'nodes' in mod else \
                f'build outcome differs: real {real.get("build_error", "builds")}, model {mod.get("build_error", "builds")}'
        elif real.get('node_map_wrong_class'):
            why = f'node map resolves {real["node_map_wrong_class"]} to a different class'
        elif pid == 'C16' and kind is not None:
            want = EXPECT[kind] if reach else None
            got = real.get('build_error')
            if reach and got != want:
                why = f'defect {kind} at reachable node {tgt} not rejected with {want} (got {got})'
            if not reach and got is not None and kind not in ('rec_dest_no_protocol', 'rec_start_no_additional'):
                why = f'defect {kind} at a node the output cannot reach was rejected ({got})'
        elif pid == 'C16' and kind is None and 'build_error' in real:
            why = f'valid declaration set rejected with {real["build_error"]}'
        if why:
            bad.append({'what': why, 'spec': sp, 'defect': kind, 'node': tgt, 'real': real, 'model': mod})
    cov = dict(aud)
    cov.update({
        'evaluations': len(cases), 'programs': len(cases),
        'distinct_nontrivial': len({json.dumps(c[0], sort_keys=True) for c in cases if len(c[0]['nodes']) >= 4}),
        'disagreements_checked': len(bad), 'by_real_outcome': kinds, 'by_shape': shapes,
        'rule': 'generated declaration sets (all mark kinds, shared and nested constructs, build_node-derived generic nodes, '
                'four execution modes)' + ('; plus single-defect mutations (8 defect kinds) placed at a random node, reachable '
                                           'or not' if pid == 'C16' else '') +
                '; non-trivial = ≥ 4 declared nodes; distinct by full spec',
        'samples': [{'classes': progen.class_source(cases[0][0]).splitlines()[7:14]}],
    })
    if bad:
        b = min(bad, key=lambda x: len(x['spec']['nodes']))
        C.write_evidence(pid, tier_, 'proof', cov, T.s(), violations=len(bad))
        C.report_violation(pid, {'property': pid, 'kind': 'failing-input', 'what': b['what'], 'spec': b['spec'],
                                 'defect': b['defect'], 'node': b['node'], 'real': b['real'], 'model': b['model'],
                                 'classes': progen.class_source(b['spec']), 'others': len(bad) - 1})
        return C.EXIT_VIOLATION
    for f in C.load_known_findings().get('findings', []):
        if f['property'] == pid and f.get('kind') == 'builder':
            real = real_dump(f['spec'])
            es = [e for e in real.get('edges', []) if e[0] == f['src'] and e[1] == f['dst']]
            if f['check'] == 'parallel' and len(es) == 1:
                print(f"KNOWN-FINDING: property={pid} {f['what'][:200]}")
    C.write_evidence(pid, tier_, 'proof', cov, T.s(), assumptions=[
        'how a Python object comes to lack a base class / a callable process / an annotation is generated, not modelled',
        'node ids are taken from the `name` attribute (get_node_id)'])
    return C.EXIT_OK


def replay(path):
    sys.path.insert(0, str(C.REPO))
    doc = json.loads(open(path).read())
    real = real_dump(doc['spec'])
    mod = json.loads(C.run_driver(['build'], [model_line(doc['spec'])])[0])
    print('real :', json.dumps(real)[:800])
    print('model:', json.dumps(mod)[:800])
    same = canon(real) == canon(mod)
    print('agree' if same else 'DIFFER')
    return 0 if same and not real.get('node_map_wrong_class') else 1

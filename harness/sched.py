"""Scheduler checks (C01–C14, C17, C19): generated programs × controlled schedules through
  1. lock-step against the Lean engine model `MLPE.Eng` (the tie the theorems rest on),
  2. the property monitors against the Lean specification `MLPE.Sem` (failing-input search, and an
     independent check inside the fragments),
  3. replay of the corpus of past defects and of the listed known findings.
"""
import json
import multiprocessing as mp
import os
import random
import sys
import time

from . import common as C

NPROC = min(int(os.environ.get('MLPE_NPROC', '16')), os.cpu_count() or 4)


def _init_worker():
    sys.path.insert(0, str(C.REPO))
    sys.setrecursionlimit(10000)


def make_policy(desc):
    from . import engine_run as ER
    k = desc[0]
    if k == 'rand':
        return ER.Policy(random.Random(desc[1]), early_p=desc[2])
    if k == 'cancel':
        return ER.Policy(random.Random(desc[1]), early_p=desc[2], cancel_at=desc[3])
    if k == 'script':
        return ER.ScriptPolicy(desc[1])
    raise ValueError(desc)


def gen_program(item):
    from . import progen
    if 'spec' in item:
        return item['spec']
    rng = random.Random(item['pseed'])
    return progen.gen_spec(rng, item['profile'], item.get('n_min', 3), item.get('n_max', 8),
                           fail_p=item.get('fail_p', 0.15), modes=tuple(item.get('modes', ('coro',))),
                           cbraise_p=item.get('cbraise_p', 0.0),
                           retry_p=item.get('retry_p', 0.3), falsy_p=item.get('falsy_p', 0.15),
                           cb_p=item.get('cb_p', 0.3), hash_fail_p=item.get('hash_fail_p', 0.08))


def run_item(item):
    """all traces of one work item: [(schedule descriptor, trace)]"""
    from . import engine_run as ER
    spec = gen_program(item)
    out = []
    for desc in item['schedules']:
        if desc[0] == 'enum':
            trs, complete = ER.enumerate_quiescent(spec, desc[1])
            for t in trs:
                out.append((['script', t['choices']], t))
            item['_enum_complete'] = complete
        elif desc[0] == 'cancel_all':
            base = ER.run_program(spec, make_policy(['rand', desc[1], desc[2]]))
            out.append((['rand', desc[1], desc[2]], base))
            nh = base['handles']
            step = max(1, nh // desc[3]) if desc[3] else 1
            for h in range(0, nh + 1, step):
                t = ER.run_program(spec, make_policy(['cancel', desc[1], desc[2], h]))
                out.append((['script', t['choices']], t))
        elif desc[0] == 'hold_all':
            for t in ER.hold_schedules(spec, desc[1]):
                out.append((['script', t['choices']], t))
        elif desc[0] == 'hold_depth':
            t = hold_depth_run(spec, desc[1])
            out.append((['script', t['choices']], t))
        else:
            out.append((desc, ER.run_program(spec, make_policy(desc))))
    return spec, out


def hold_depth_run(spec, seed):
    """C06 schedule: release gates depth by depth; a depth is released only at quiescence"""
    from . import engine_run as ER

    class P(ER.Policy):
        def choose(self, world, nh, ready, gates, timers):
            if ready:
                return ('step',)
            opts = [('gate', g.key) for g in gates] + ([('timer',)] if timers else [])
            return self.rng.choice(opts) if opts else ('stop',)
    return ER.run_program(spec, P(random.Random(seed)))


def worker(chunk):
    """chunk = list of work items. returns list of per-trace records (small) + aggregate stats"""
    from . import fragment, lockstep, monitors
    recs = []
    traces, owners = [], []
    specs = []
    for item in chunk:
        try:
            spec, pairs = run_item(item)
        except Exception as e:  # noqa
            recs.append({'item': {k: v for k, v in item.items() if k != 'spec'}, 'harness_error': repr(e)[:300]})
            continue
        specs.append(spec)
        for desc, tr in pairs:
            traces.append(tr)
            owners.append((item, spec, desc))
    if not traces:
        return recs
    divs = lockstep.lockstep_many(traces)
    # one Sem evaluation per distinct program
    keyed = {}
    for tr in traces:
        k = json.dumps(tr['spec'], sort_keys=True)
        if k not in keyed:
            keyed[k] = tr
    sem_out = C.run_driver(['sem'], [json.dumps({'graph': t['graph'], 'spec': t['spec']}) for t in keyed.values()])
    sems = {k: json.loads(o) for k, o in zip(keyed.keys(), sem_out)}
    for tr, div, (item, spec, desc) in zip(traces, divs, owners):
        k = json.dumps(tr['spec'], sort_keys=True)
        sem = sems[k]
        infrag, why = fragment.in_fragment(tr['graph'])
        if tr['spec'].get('cbraise'):
            # a failing collaborator: Sem does not describe it, and C14 / C19 speak of collaborators that do not raise
            infrag, why = False, 'cb_raise'
        viol = {}
        tr['model_agrees'] = not div
        want = item.get('monitors') or [m for m in monitors.ALL if m != 'C19strict']
        for pid in want:
            f = monitors.ALL.get(pid)
            if f is None:
                continue
            r = f(tr, sem if infrag and 'error' not in sem else None)
            if r and (infrag or pid in monitors.EVERYWHERE) and not (why == 'cb_raise' and pid in ('C14', 'C19')):
                viol[pid] = r[:3]
        for pid in want:
            # a hang inside the fragment is a failing input of the properties that promise somebody a value
            if pid not in viol and infrag and 'error' not in sem:
                h = monitors.hang(pid, tr, sem)
                if h:
                    viol[pid] = h
        if monitors.plain_graph(tr['graph']) and 'error' not in sem and sem.get('dflt_ok', True):
            # the hypotheses of the plain-fragment theorems hold on this program, and the reference evaluator
            # Sem (the monitors' oracle) solves the dataflow equations the theorems are stated about
            st = tr.setdefault('stats', {})
            st['plain_programs'] = st.get('plain_programs', 0) + 1
            if sem.get('plain_hyp'):
                st['plain_hypotheses_hold'] = st.get('plain_hypotheses_hold', 0) + 1
                if (tr['spec'].get('cb') or {}):
                    st['plain_programs_with_suspending_collaborators'] = \
                        st.get('plain_programs_with_suspending_collaborators', 0) + 1
            elif not div:
                div = {'why': 'a pipeline of plain Input dependencies does not satisfy the hypotheses (plainCheck) of the '
                              'plain-fragment theorems', 'at': -1}
            if sem.get('sem_solves'):
                st['sem_is_solution'] = st.get('sem_is_solution', 0) + 1
            elif not div:
                div = {'why': 'the reference evaluator Sem does not solve the dataflow equations (Solution) on a plain '
                              'pipeline', 'at': -1}
        if 'error' not in sem and sem.get('sw_hyp') and any(n['is_switch'] for n in tr['graph']['nodes']):
            # switch-only pipelines: the hypotheses of the switch-safety theorems hold; Sem agrees with the eager solution
            st = tr.setdefault('stats', {})
            st['switch_only_programs'] = st.get('switch_only_programs', 0) + 1
            # the hypotheses of the stuck-freedom theorem for switch pipelines (LiveP: collaborators that do not suspend,
            # case nodes that are ordinary nodes, every reduced DAG closed under dependencies)
            if sem.get('sw_noyield'):
                st['switch_programs_without_suspending_collaborators'] = \
                    st.get('switch_programs_without_suspending_collaborators', 0) + 1
                if sem.get('live_hyp'):
                    st['switch_liveness_hypotheses_hold'] = st.get('switch_liveness_hypotheses_hold', 0) + 1
            if sem.get('sem_solves_sw'):
                st['sem_is_switch_solution'] = st.get('sem_is_switch_solution', 0) + 1
            elif not div:
                div = {'why': 'the reference evaluator Sem disagrees with the eager solution of the dataflow equations with '
                              'switches (SolutionSw) on a switch-only pipeline', 'at': -1}
        if 'error' not in sem and any(n['is_oneof_head'] for n in tr['graph']['nodes']) and \
                not any(n['start_node'] is not None for n in tr['graph']['nodes']):
            # switch / one-of pipelines without recurrent subgraphs: do the hypotheses of the one-of safety theorems hold,
            # and does Sem agree with the eager solution of the equations with one-ofs (SolutionOne)?
            st = tr.setdefault('stats', {})
            st['oneof_programs'] = st.get('oneof_programs', 0) + 1
            if sem.get('one_hyp'):
                st['oneof_hypotheses_hold'] = st.get('oneof_hypotheses_hold', 0) + 1
                if sem.get('sem_solves_one'):
                    st['sem_is_oneof_solution'] = st.get('sem_is_oneof_solution', 0) + 1
                elif not div and infrag:
                    div = {'why': 'the reference evaluator Sem disagrees with the eager solution of the dataflow equations with '
                                  'one-ofs (SolutionOne) on a pipeline that satisfies the hypotheses of the one-of theorems',
                           'at': -1}
        for pid in want:
            hyp = monitors.HYPOTHESES.get(pid)
            if hyp and not div:
                hv = hyp(tr)
                if hv:
                    div = {'why': hv[0], 'at': -1}
        if 'C02' in want and 'C02' not in viol and tr['verdict'] == 'deadlock' and div and 'model is not stuck' in div.get('why', ''):
            # outside the fragments too: the real run deadlocks where the model (which reproduces the recorded
            # defects of the unchanged tree) goes on — a failing input for C02, not a listed pre-existing behaviour
            viol['C02'] = monitors.c02(tr)[:1]
        if tr.get('lock_slow_path'):
            div = div or {'why': 'asyncio.Lock took its slow path (the model assumes it never does)', 'at': -1}
        rec = {
            'pseed': item.get('pseed'), 'profile': item.get('profile'), 'name': item.get('name'),
            'shape': fragment.shape_class(tr['graph']), 'infrag': infrag, 'frag_why': why,
            'handles': tr['handles'], 'verdict': tr['verdict'],
            'result': lockstep.outcome_str(tr['results'][0]) if tr['results'] and tr['results'][0] else None,
            'n_nodes': len(tr['graph']['nodes']), 'div': div, 'viol': viol,
            'sched': desc[0], 'enum_complete': item.get('_enum_complete'), 'stats': tr.get('stats', {}),
        }
        if div or viol:
            rec['spec'] = tr['spec']
            rec['choices'] = tr['choices']
        else:
            rec['sig'] = hash(k) & 0xFFFFFFFF
        recs.append(rec)
    return recs


def run_items(items, chunk=6):
    chunks = [items[i:i + chunk] for i in range(0, len(items), chunk)]
    C.ensure_built()
    if len(chunks) <= 1 or NPROC == 1:
        _init_worker()
        out = []
        for ch in chunks:
            out += worker(ch)
        return out
    ctx = mp.get_context('fork')
    with ctx.Pool(NPROC, initializer=_init_worker) as pool:
        out = []
        for r in pool.imap_unordered(worker, chunks):
            out += r
        return out


# ------------------------------------------------------------------------------------------------ profiles

def general_items(seed, n_prog, tier, profiles=('plain', 'switch', 'oneof', 'rec', 'mixed', 'shared'), monitors_=None,
                  n_min=3, n_max=8, modes=('coro',), enum_limit=12, n_rand=3, fail_p=0.15):
    rng = random.Random(seed * 1000003 + 17)
    items = []
    for i in range(n_prog):
        prof = profiles[i % len(profiles)]
        pseed = rng.randrange(1 << 40)
        sch = [['rand', rng.randrange(1 << 30), 0.0]]
        for _ in range(n_rand):
            sch.append(['rand', rng.randrange(1 << 30), rng.choice([0.15, 0.3, 0.5])])
        if enum_limit and i % 3 == 0:
            sch.append(['enum', enum_limit])
        items.append({'pseed': pseed, 'profile': prof, 'schedules': sch, 'monitors': monitors_, 'n_min': n_min,
                      'n_max': n_max, 'modes': list(modes), 'fail_p': fail_p})
    return items


def corpus_items(monitors_=None):
    f = C.VERIF / 'corpus' / 'sched.json'
    items = []
    if f.exists():
        for name, spec in json.loads(f.read_text()).items():
            sch = [['rand', 11, 0.0], ['rand', 12, 0.3], ['rand', 13, 0.5], ['enum', 24]]
            items.append({'name': name, 'spec': spec, 'schedules': sch, 'monitors': monitors_})
    from . import mkcorpus
    for name, spec in mkcorpus.motif_specs().items():
        sch = [['rand', 21, 0.0], ['rand', 22, 0.3], ['enum', 16]]
        if '/' not in name:
            sch.append(['hold_all', 300])      # the motif itself (not its variants): every single-delayed-node schedule
        items.append({'name': 'motif:' + name, 'spec': spec, 'schedules': sch, 'monitors': monitors_})
    return items


# per-property exploration profile: which programs / schedules / monitors decide it
PROFILES = {
    'C01': dict(monitors=['C01', 'C02'], profiles=('plain', 'switch', 'oneof', 'rec', 'mixed', 'shared'), q=1800, t=20000),
    'C02': dict(monitors=['C02'], profiles=('plain', 'switch', 'oneof', 'rec', 'mixed', 'shared'), q=1800, t=20000,
                fail_p=0.3, cbraise_p=0.3),
    'C03': dict(monitors=['C03'], profiles=('plain', 'switch', 'oneof', 'rec', 'mixed', 'shared'), q=1800, t=20000),
    'C04': dict(monitors=['C04'], profiles=('shared', 'mixed', 'rec', 'shared', 'mixed', 'switch', 'oneof', 'plain'), q=1800, t=20000),
    'C05': dict(monitors=['C05'], profiles=('plain', 'oneof', 'mixed', 'switch', 'rec', 'shared'), q=1800, t=20000,
                fail_p=0.35),
    'C06': dict(monitors=['C06'], profiles=('plain',), q=1500, t=15000, fail_p=0.05, hold=True, n_min=5,
                modes=('coro', 'thread', 'process', 'coro', 'inline')),
    'C09': dict(monitors=['C09', 'C01'], profiles=('switch', 'mixed', 'shared'), q=1800, t=20000),
    'C10': dict(monitors=['C10', 'C01'], profiles=('oneof', 'mixed', 'shared'), q=1800, t=20000, fail_p=0.3),
    'C11': dict(monitors=['C11', 'C01', 'C03'], profiles=('rec', 'mixed', 'shared'), q=1800, t=20000),
    'C13': dict(monitors=['C13'], profiles=('plain', 'switch', 'oneof', 'rec', 'mixed', 'shared'), q=500, t=5000,
                cancel=True, cbraise_p=0.15),
    'C14': dict(monitors=['C14'], profiles=('plain', 'switch', 'oneof', 'rec', 'mixed', 'shared'), q=1800, t=20000,
                fail_p=0.3),
    'C19': dict(monitors=['C19'], profiles=('plain', 'switch', 'oneof', 'mixed', 'shared'), q=1800, t=20000),
}

SCHED_TEXT = ('generated programs (profile cycle {profiles}; 3–8 declared nodes + synthetic nodes; random retry / default / '
              'failure plans, None/0/\'\' results) × schedules: one run-to-quiescence schedule, 3 random schedules with early '
              'injections and bursts, and for every third program all quiescent-point orders (≤ {enum} schedules); corpus of past '
              'defects first. Every trace is replayed handle by handle on the Lean model (lock-step) and checked by the monitors '
              'of this property. distinct = distinct (program, choice sequence); non-trivial = ≥ 2 node bodies started.')


def _sat_worker(chunk):
    """C13 on a saturated pool (trace-only: the model has no pool queue): pipelines with thread / process nodes on a virtual
    pool with one or two workers; further jobs wait in the pool's queue and start when a worker is free — unless they were
    withdrawn.  After chart.run has ended (error, or cancellation at a random handle) nothing may start."""
    from . import engine_run as ER, monitors, progen
    _init_worker()
    out = []
    for pseed in chunk:
        rng = random.Random(pseed)
        spec = progen.gen_spec(rng, rng.choice(['plain', 'plain', 'mixed', 'oneof']), 4, 8, fail_p=0.3, retry_p=0.2,
                               modes=('thread', 'thread', 'coro', 'process'), cb_p=0.0, hash_fail_p=0.0)
        spec['pool_capacity'] = rng.choice([1, 1, 2])
        rec = {'pseed': pseed, 'runs': 0, 'viol': [], 'queued': 0}
        try:
            base = ER.run_program(spec, ER.Policy(random.Random(pseed + 1), early_p=0.3))
            cancels = [None] + [rng.randrange(0, max(1, base['handles'])) for _ in range(4)]
            for k, ca in enumerate(cancels):
                tr = base if k == 0 else ER.run_program(spec, ER.Policy(random.Random(pseed + 1 + k), early_p=rng.choice([0.0, 0.3]),
                                                                        cancel_at=ca))
                rec['runs'] += 1
                v = monitors.c13(tr)
                if v:
                    rec['viol'] = v
                    rec['spec'], rec['choices'] = spec, tr['choices']
                    break
        except Exception as e:  # noqa
            rec['harness_error'] = repr(e)[:300]
        out.append(rec)
    return out


def saturated_pool(n):
    import multiprocessing as mp
    rng = random.Random(C.seed() * 53 + 13)
    seeds = [rng.randrange(1 << 40) for _ in range(n)]
    chunks = [seeds[i:i + 10] for i in range(0, len(seeds), 10)]
    recs = []
    with mp.get_context('fork').Pool(NPROC) as pool:
        for r in pool.imap_unordered(_sat_worker, chunks):
            recs += r
    stats = {'saturated_pool_programs': len(recs), 'saturated_pool_runs': sum(r['runs'] for r in recs),
             'saturated_pool_harness_errors': sum(1 for r in recs if r.get('harness_error'))}
    return stats, [r for r in recs if r['viol']]


def summarize(recs):
    s = dict(traces=0, programs=set(), divergences=0, monitor_hits=0, handles=0, deadlocks=0, infrag=0,
             by_shape={}, by_sched={}, by_result={}, harness_errors=0)
    for r in recs:
        if 'harness_error' in r:
            s['harness_errors'] += 1
            continue
        s['traces'] += 1
        s['programs'].add((r.get('pseed'), r.get('name')))
        s['handles'] += r['handles']
        s['infrag'] += 1 if r['infrag'] else 0
        s['by_shape'][r['shape']] = s['by_shape'].get(r['shape'], 0) + 1
        s['by_sched'][r['sched']] = s['by_sched'].get(r['sched'], 0) + 1
        res = (r['result'] or r['verdict']).split(' ')[0]
        s['by_result'][res] = s['by_result'].get(res, 0) + 1
        for k, v in (r.get('stats') or {}).items():
            s.setdefault('stats', {})
            s['stats'][k] = s['stats'].get(k, 0) + v
        if r['div']:
            s['divergences'] += 1
        if r['viol']:
            s['monitor_hits'] += 1
    s['programs'] = len(s['programs'])
    return s


def main_for(pid, tier_):
    T = C.Timer()
    sys.path.insert(0, str(C.REPO))
    aud = C.audit(pid)
    prof = PROFILES[pid]
    n = prof['q'] if tier_ == 'quick' else prof['t']
    enum = 12 if tier_ == 'quick' else 40
    items = corpus_items(prof['monitors']) + general_items(
        C.seed(), n, tier_, profiles=prof['profiles'], monitors_=prof['monitors'], enum_limit=enum,
        fail_p=prof.get('fail_p', 0.15), n_max=8 if tier_ == 'quick' else 10, modes=prof.get('modes', ('coro',)), n_min=prof.get('n_min', 3))
    if prof.get('cbraise_p'):
        # failing collaborators (an event callback or the artifact store raises) in a share of the programs
        for it in items:
            if 'spec' not in it:
                it['cbraise_p'] = prof['cbraise_p']
    if prof.get('hold'):
        # C06: run to idleness, check, then let one body / timer complete (the other bodies stay held open)
        rng = random.Random(C.seed() * 37 + 5)
        for it in items:
            it['schedules'] = it['schedules'][:2] + [['hold_depth', rng.randrange(1 << 30)] for _ in range(3)]
        # very wide layers: no cap on the number of equal-depth nodes in flight together
        from . import mkcorpus
        for w, md in ((12, ('coro',)), (24, ('coro', 'thread')), (40, ('coro',)), (60, ('coro', 'process', 'thread'))):
            items.append({'name': f'wide{w}', 'spec': mkcorpus.wide_spec(w, md), 'monitors': prof['monitors'],
                          'schedules': [['hold_depth', rng.randrange(1 << 30)], ['rand', 5, 0.0]]})
    if prof.get('cancel'):
        # C13: the caller is cancelled before every loop handle of a base schedule (exhaustive per run)
        rng = random.Random(C.seed() * 31 + 13)
        for it in items:
            if 'spec' in it:
                it['schedules'] = it['schedules'][:1] + [['cancel_all', 5, 0.3, 0]]
            else:
                it['schedules'] = it['schedules'][:2] + [['cancel_all', rng.randrange(1 << 30), rng.choice([0.0, 0.3]), 0]]
    recs = run_items(items)
    extra = None
    if pid == 'C02':
        # the model's own schedule space (all interleavings, not only FIFO): random walks looking for stuck states
        from . import explore
        st, bad = explore.explore(150 if tier_ == 'quick' else 1500, 40 if tier_ == 'quick' else 120, C.seed())
        if bad or st['timeout'] or st['refused'] or st['bad_oracle']:
            raise C.ToolFailure('model-schedule exploration: the model gets stuck / refuses a step inside the fragments: '
                                + json.dumps(bad[:3]) + json.dumps({k: v for k, v in st.items() if k != 'by_shape'}))
        extra = {'model_schedule_exploration': st}
    if pid == 'C13':
        stats, bad = saturated_pool(300 if tier_ == 'quick' else 3000)
        extra = stats
        if stats['saturated_pool_harness_errors'] > max(3, stats['saturated_pool_programs'] // 20):
            raise C.ToolFailure(f'saturated-pool phase: {stats["saturated_pool_harness_errors"]} harness errors')
        if bad:
            r = min(bad, key=lambda x: len(x['spec']['nodes']))
            C.report_violation(pid, {'property': pid, 'kind': 'failing-input', 'what': {'C13': r['viol']}, 'spec': r['spec'],
                                     'choices': r['choices'], 'pseed': r['pseed'],
                                     'note': 'saturated virtual pool (spec.pool_capacity): trace-only, no lock-step'})
            finish(pid, tier_, recs, aud, T, prof, SCHED_TEXT.format(profiles=prof['profiles'], enum=enum), extra_cov=extra,
                   quiet=True)
            return C.EXIT_VIOLATION
    if pid == 'C03':
        from . import multirun
        stats, bad = multirun.c03_histories(400 if tier_ == 'quick' else 4000)
        extra = stats
        if bad:
            r = min(bad, key=lambda x: len(x['spec']['nodes']))
            C.report_violation(pid, {'property': pid, 'kind': 'failing-history', 'what': r['viol_c03'], 'spec': r['spec'],
                                     'pseed': r['pseed'], 'profile': r['profile'], 'mode': 'C07',
                                     'replay': 'python -m harness.multirun history (pseed, profile)'})
            finish(pid, tier_, recs, aud, T, prof, SCHED_TEXT.format(profiles=prof['profiles'], enum=enum), extra_cov=extra,
                   quiet=True)
            return C.EXIT_VIOLATION
    return finish(pid, tier_, recs, aud, T, prof, SCHED_TEXT.format(profiles=prof['profiles'], enum=enum), extra_cov=extra)


def finish(pid, tier_, recs, aud, T, prof, rule, extra_cov=None, quiet=False):
    from . import findings
    s = summarize(recs)
    bad = [r for r in recs if r.get('div') or r.get('viol')]
    herr = [r for r in recs if 'harness_error' in r]
    cov = dict(aud)
    nontrivial = len({(r.get('pseed'), r.get('name'), r.get('sig')) for r in recs
                      if 'harness_error' not in r and r['handles'] >= 6})
    cov.update({
        'evaluations': s['traces'], 'programs': s['programs'], 'distinct_nontrivial': nontrivial,
        'traces_validated_against_impl': s['traces'] - s['divergences'],
        'loop_handles_compared': s['handles'], 'in_fragment_traces': s['infrag'],
        'by_shape': s['by_shape'], 'by_schedule_kind': s['by_sched'], 'by_result': s['by_result'],
        'disagreements_checked': s['divergences'], 'monitor_hits': s['monitor_hits'],
        'monitor_stats': s.get('stats', {}),
        'rule': rule,
        'samples': [{k: r.get(k) for k in ('profile', 'pseed', 'shape', 'sched', 'handles', 'result', 'infrag')}
                    for r in recs[:3] if 'harness_error' not in r],
    })
    if extra_cov:
        cov.update(extra_cov)
    if herr and len(herr) > max(3, len(recs) // 50):
        raise C.ToolFailure(f'{len(herr)} harness errors, e.g. {herr[0]}')
    if quiet:
        code, nviol = C.EXIT_VIOLATION, 1
    else:
        code, nviol = findings.decide(pid, bad, prof)
    C.write_evidence(pid, tier_, 'proof', cov, T.s(), violations=nviol, assumptions=[
        'asyncio facts A1–A7 of DESIGN.md §1.2 (A2 asserted at run time)',
        'launch order of nx.topological_sort is an oracle input validated by the model (validOrder)',
        'node bodies are deterministic functions of (kwargs, invocation, attempt)'])
    return code


def replay(path):
    """re-run a replay file: the program under its exact choice sequence; prints what happens"""
    from . import engine_run as ER, fragment, lockstep, monitors
    sys.path.insert(0, str(C.REPO))
    doc = json.loads(open(path).read())
    tr = ER.run_program(doc['spec'], ER.ScriptPolicy(doc['choices']))
    # (a saturated virtual pool — spec.pool_capacity — is a trace-only phase: the model has no pool queue)
    div = None if doc['spec'].get('pool_capacity') else lockstep.lockstep_many([tr])[0]
    sem = json.loads(C.run_driver(['sem'], [json.dumps({'graph': tr['graph'], 'spec': tr['spec']})])[0])
    infrag, _ = fragment.in_fragment(tr['graph'])
    print('verdict:', tr['verdict'], 'result:', tr['results'])
    print('lock-step:', 'agrees' if not div else json.dumps(div)[:600])
    bad = bool(div)
    tr['model_agrees'] = not div
    for pid, f in monitors.ALL.items():
        r = f(tr, sem if infrag else None)
        if r:
            print('monitor', pid, r[:2])
            if pid == doc.get('property'):
                bad = True
    return 1 if bad else 0

"""Random exploration of the MODEL's schedule space (every interleaving MLPE.Eng allows, not only asyncio's FIFO order):
a search for stuck states of the model on the graphs the real builder produces.  Extra evidence for C02 — it says
nothing about the implementation by itself and is not a proof.  A stuck state inside the fragments would contradict the
stuck-freedom statements (plain pipelines: a theorem) and the tie's picture of the engine; it is reported as a tool
failure, never as a violation."""
import json
import random

from . import common as C


def explore(n_gen, walks, seed):
    from . import engine_run as ER, fragment, mkcorpus, progen
    specs = list(json.loads((C.VERIF / 'corpus' / 'sched.json').read_text()).items())
    specs += [('motif:' + k, v) for k, v in mkcorpus.motif_specs().items()]
    rng = random.Random(seed * 7919 + 11)
    for i in range(n_gen):
        prof = ('switch', 'oneof', 'mixed', 'shared', 'plain')[i % 5]
        specs.append((f'gen{i}:{prof}', progen.gen_spec(random.Random(rng.randrange(1 << 40)), prof, 3, 9, fail_p=0.25)))
    lines, meta = [], []
    for name, sp in specs:
        try:
            w = ER.World(sp)
        except Exception:  # noqa  (a spec the real builder rejects)
            continue
        f = fragment.features(w.graph)
        if f['recs']:
            continue        # the explorer's launch-order oracle does not cover recurrent DAGs
        lines.append(json.dumps({'graph': w.graph, 'spec': sp, 'walks': walks, 'seed': seed + 1, 'maxsteps': 4000}))
        meta.append((name, fragment.in_fragment(w.graph), fragment.shape_class(w.graph)))
    outs = [json.loads(l) for l in C.run_driver(['explore'], lines)]
    st = dict(programs=0, walks=0, returned=0, stuck_in_fragment=0, stuck_outside_fragment=0, timeout=0, refused=0,
              bad_oracle=0, by_shape={})
    bad = []
    for (name, (infrag, why), shape), o in zip(meta, outs):
        if 'error' in o:
            raise C.ToolFailure(f'explorer: {name}: {o["error"]}')
        st['programs'] += 1
        st['walks'] += o['walks']
        st['returned'] += o['returned']
        st['timeout'] += o['timeout']
        st['refused'] += o['refused']
        st['bad_oracle'] += o['bad_oracle']
        st['by_shape'][shape] = st['by_shape'].get(shape, 0) + 1
        if o['stuck']:
            st['stuck_in_fragment' if infrag else 'stuck_outside_fragment'] += o['stuck']
            if infrag:
                bad.append((name, o['first_stuck'][:80]))
    return st, bad

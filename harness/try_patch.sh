#!/bin/bash
# usage: try_patch.sh <patch.diff> <Cxx> [more ids...]  — apply to /repo, run quick checks, always revert
set -u
P="$1"; shift
cd /repo || exit 2
if ! git -C /repo diff --quiet; then echo "repo dirty"; exit 2; fi
git -C /repo apply "$P" || { echo "patch does not apply"; exit 2; }
for id in "$@"; do
  ( cd /verif && timeout 1200 ./check "$id" --tier quick 2>&1 | grep -E "VIOLATION|KNOWN|TOOL|Error|error" | head -5; echo "$id exit=${PIPESTATUS[0]}" )
done
git -C /repo checkout -- . && git -C /repo clean -fdq

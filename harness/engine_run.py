"""Run the REAL engine (from /repo's working tree) on a generated program under a controlled schedule
and record, per loop handle, which task stepped and what it did.

Schedule = a policy object answering, before every handle: inject an external completion (release a
node-body gate, fire the earliest timer, cancel the caller) or run the next ready task handle.
"""
import asyncio
import concurrent.futures
import logging
import random
import sys

logging.disable(logging.CRITICAL)

from . import progen
from .progen import CURRENT_RUN
from .vloop import StepLoop, install_lock_probe

_LOOP_HOLDER = {'loop': None}


class RunCtx:
    """per chart.run bookkeeping (the harness side of one run)"""

    def __init__(self, rid, world, input_kwargs):
        self.rid = rid
        self.world = world
        self.index_of = world.index_of
        self.starts = {}        # node idx -> number of on_node_start seen
        self.by_task = {}       # (task id, node idx) -> [invocation index, body calls]
        self.calls = {}         # node idx -> body calls since last start
        self.input_kwargs = input_kwargs
        self.ntasks = 0         # tasks created by this run (local task indices, as in the model)
        self.task = None
        self.result = None      # ('value', v) | ('error', ident) | ('raised', ident) | ('cancelled',)


class Gate:
    def __init__(self, rid, node, inv, att, fut=None, cfut=None, outcome=None):
        self.rid, self.node, self.inv, self.att = rid, node, inv, att
        self.fut, self.cfut, self.outcome = fut, cfut, outcome

    @property
    def key(self):
        return [self.rid, self.node, self.inv, self.att]

    def alive(self):
        if self.fut is not None:
            return not self.fut.done()
        return not self.cfut.done()


class VirtualExecutor:
    """stands in for the thread / process pool: runs the function at submit time (as a free worker
    would), holds the result until the harness releases the gate."""
    _shutdown = False
    _shutdown_thread = False

    def __init__(self, world, capacity=None):
        self.world = world
        self.capacity = capacity      # number of workers (None: always a free one); further jobs wait in the queue
        self.queue = []
        self.mine = []                # gates of the jobs this pool is running

    def busy(self):
        self.mine = [g for g in self.mine if g.alive()]
        return len(self.mine)

    def submit(self, fn, *a, **kw):
        cf = concurrent.futures.Future()
        if self.capacity is not None and self.busy() >= self.capacity:
            # a saturated pool: the job waits until a worker is free (World.release), unless its future is cancelled first
            import contextvars
            self.queue.append((cf, fn, a, kw, contextvars.copy_context()))   # (the harness finds its run through the context)
            return cf
        return self._run(cf, fn, a, kw)

    def worker_freed(self):
        while self.queue and (self.capacity is None or self.busy() < self.capacity):
            cf, fn, a, kw, ctx = self.queue.pop(0)
            if not cf.set_running_or_notify_cancel():
                continue              # withdrawn while it was waiting (what ThreadPoolExecutor's workers do)
            ctx.run(self._run, cf, fn, a, kw)

    def _run(self, cf, fn, a, kw):
        w = self.world
        w.pending_submit = cf
        try:
            try:
                res = ('ok', fn(*a, **kw))
            except BaseException as e:  # noqa
                res = ('exc', e)
        finally:
            w.pending_submit = None
        g = w.last_sync_gate
        w.last_sync_gate = None
        if g is None:      # a function that is not a harness body
            if res[0] == 'ok':
                cf.set_result(res[1])
            else:
                cf.set_exception(res[1])
            return cf
        g.cfut, g.outcome = cf, res
        w.gates.append(g)
        self.mine.append(g)
        w.obs.append(['gate', g.key])
        return cf

    def shutdown(self, *a, **k):
        pass


class World:
    """one program instantiated as real classes + one stepping loop; may host several runs"""

    def __init__(self, spec, record_store=True, store_write_once=True):
        from ml_pipeline_engine.chart import PipelineChart
        from ml_pipeline_engine.dag_builders.annotation.builder import build_dag
        from ml_pipeline_engine.parallelism import process_pool_registry, threads_pool_registry

        self.spec = spec
        self.obs = []                 # observations of the current handle
        self.gates = []
        self.runs = {}
        self.pending_submit = None
        self.last_sync_gate = None
        self.after_end = []           # observations made after the caller's task finished
        self.saved = []               # (run, node) of every artifact_store.save that ran to completion
        self.obs2 = []                # what the second event manager sees: [kind, run, node, error, position in the obs stream]
        self.obs_taken = 0            # observations handed out so far (positions in the obs stream)
        self.topo = []
        self.classes, self.source = progen.build_classes(spec, self)
        with progen.det_uuids(spec):
            self.dag = build_dag(input_node=self.classes[spec['input']], output_node=self.classes[spec['output']])
        self.graph, self.index_of = progen.dump_graph(self.dag, spec)
        progen.WORLD_INDEX['index_of'] = {**(progen.WORLD_INDEX.get('index_of') or {}), **self.index_of}
        self.loop = StepLoop()
        self.loop.world = self
        _LOOP_HOLDER['loop'] = self.loop
        install_lock_probe(_LOOP_HOLDER)
        self.loop.on_task_created = self._task_created
        world = self

        cbplan = spec.get('cb') or {}

        crplan = spec.get('cbraise') or {}

        async def _yields(kind, i=None):
            # a failing collaborator (spec['cbraise']): raises at once, every time it is called
            cls = crplan.get(kind)
            if isinstance(cls, dict):
                cls = cls.get(str(i))
            if cls:
                raise progen.EXC[cls](i if i is not None else 0, 0, 0)
            # the collaborator suspends: `k` bare yields (spec['cb'])
            k = cbplan.get(kind, 0)
            if isinstance(k, dict):
                k = k.get(str(i), 0)
            for _ in range(k):
                await asyncio.sleep(0)

        class Events:
            async def on_pipeline_start(self, ctx):
                world.obs.append(['emit', 'pstart', _rid(), None, None])
                await _yields('pstart')

            async def on_pipeline_complete(self, ctx, result):
                world.obs.append(['emit', 'pcomplete', _rid(), None, _res_canon(result)])
                await _yields('pcomplete')

            async def on_node_start(self, ctx, node_id):
                r = CURRENT_RUN.get()
                i = world.index_of.get(node_id, -1)
                r.starts[i] = r.starts.get(i, 0) + 1
                r.calls[i] = 0
                # the invocation index belongs to the task that starts the node (two scopes may execute one node
                # at the same time, e.g. overlapping recurrent subgraphs)
                r.by_task[(id(asyncio.current_task()), i)] = [r.starts[i] - 1, 0]
                world.obs.append(['emit', 'nstart', r.rid, i, None])
                await _yields('nstart', i)

            async def on_node_complete(self, ctx, node_id, error):
                i = world.index_of.get(node_id, -1)
                world.obs.append(['emit', 'ncomplete', _rid(), i,
                                  None if error is None else progen.exc_ident(error)])
                await _yields('ncomplete', i)

        class Events2:
            """a second event manager, registered after the first: it never suspends and never raises (so the run is
            scheduled exactly as with the first one alone); it records what it is told and when, relative to the
            observation stream"""

            @staticmethod
            def _rec(kind, node_id, x):
                i = world.index_of.get(node_id, -1) if node_id is not None else None
                world.obs2.append([kind, _rid(), i, x, world.obs_taken + len(world.obs)])

            @staticmethod
            async def _io(kind, node_id=None):
                # where the first manager raises (spec['cbraise']) this one is never reached — managers are notified one
                # after another and the exception of the first ends the emit.  It "does I/O" exactly there: were the
                # managers notified at once, its callback would be left suspended on the loop when the run ends
                cls = crplan.get(kind)
                if isinstance(cls, dict):
                    cls = cls.get(str(world.index_of.get(node_id, -1)))
                if cls:
                    await asyncio.sleep(0)
                    await asyncio.sleep(0)

            async def on_pipeline_start(self, ctx):
                await self._io('pstart')
                self._rec('pstart', None, None)

            async def on_pipeline_complete(self, ctx, result):
                await self._io('pcomplete')
                self._rec('pcomplete', None, _res_canon(result))

            async def on_node_start(self, ctx, node_id):
                await self._io('nstart', node_id)
                self._rec('nstart', node_id, None)

            async def on_node_complete(self, ctx, node_id, error):
                await self._io('ncomplete', node_id)
                self._rec('ncomplete', node_id, None if error is None else progen.exc_ident(error))

        class Store:
            def __init__(self, ctx):
                self.ctx = ctx

            async def save(self, node_id, data):
                i = world.index_of.get(node_id, -1)
                world.obs.append(['save', _rid(), i, progen.canon(data)])
                await _yields('save', i)
                # the write has completed (a save that is cancelled while it is suspended never gets here)
                world.saved.append([_rid(), i])

            async def load(self, node_id):
                raise KeyError(node_id)

        def _rid():
            r = CURRENT_RUN.get()
            return r.rid if r else -1

        def _res_canon(result):
            if result.error is not None:
                return ['error', progen.exc_ident(result.error)]
            return ['value', progen.canon(result.value)]

        self._res_canon = _res_canon
        self.chart = PipelineChart(model_name='m', entrypoint=self.dag, event_managers=[Events, Events2],
                                   artifact_store=Store if record_store else None)
        # virtual pools
        self._saved_pools = (threads_pool_registry._pool_executor, process_pool_registry._pool_executor,
                             process_pool_registry._process_manager)
        threads_pool_registry._pool_executor = VirtualExecutor(self, spec.get('pool_capacity'))
        process_pool_registry._pool_executor = VirtualExecutor(self, spec.get('pool_capacity'))
        self.executors = [threads_pool_registry._pool_executor, process_pool_registry._pool_executor]
        process_pool_registry._process_manager = object()
        self._install_topo_recorder()

    # -- hooks -----------------------------------------------------------------------------
    def _install_topo_recorder(self):
        from ml_pipeline_engine.dag import manager as M
        world = self
        if not getattr(M.DAGRunConcurrentManager, '_mlpe_wrapped', False):
            orig = M.DAGRunConcurrentManager._get_node_order

            def _get_node_order(mgr, dag):
                out = orig(mgr, dag)
                lp = asyncio.events._get_running_loop()
                w = getattr(lp, 'world', None)
                if w is not None:
                    w.obs.append(['topo', [w.index_of.get(x, -1) for x in out]])
                return out
            M.DAGRunConcurrentManager._get_node_order = _get_node_order
            M.DAGRunConcurrentManager._mlpe_wrapped = True
        _LOOP_HOLDER['world'] = world

    def _task_created(self, t):
        r = CURRENT_RUN.get()
        t.rid = r.rid if r is not None else -1
        if r is not None:
            t.local = r.ntasks
            r.ntasks += 1
        else:
            t.local = -1
        self.obs.append(['spawn', t.local, t])     # the name is set after the factory returns: resolved later

    def take_obs(self):
        out = []
        for o in self.obs:
            if o[0] == 'spawn' and not isinstance(o[2], list):
                o = ['spawn', o[1], self._task_name(o[2])]
            out.append(o)
        self.obs_taken += len(self.obs)
        self.obs = []
        return out

    def _task_name(self, t):
        name = t.get_name()
        if name in self.index_of:
            nm = ['node', self.index_of[name]]
        elif name == 'run':
            nm = ['run']
        elif name.startswith('rec-'):
            nm = ['rec', self.index_of.get(name[4:], -1)]
        elif name.startswith('caller'):
            nm = ['caller']
        else:
            nm = ['dag']
        return nm

    def _fresh(self, inst):
        # the engine creates a new node object for every invocation: a reused one is reported in the trace
        used = getattr(inst, '_mlpe_used', False)
        try:
            inst._mlpe_used = True
        except Exception:  # noqa
            pass
        if used:
            self.obs.append(['reused-instance', type(inst).__name__])

    def _counters(self, idx):
        r = CURRENT_RUN.get()
        r.calls[idx] = r.calls.get(idx, 0) + 1
        try:
            rec = r.by_task.get((id(asyncio.current_task()), idx))
        except RuntimeError:
            rec = None
        if rec is not None:
            rec[1] += 1
            return r, rec[0], rec[1]
        return r, max(r.starts.get(idx, 1) - 1, 0), r.calls[idx]

    def _outcome(self, idx, inst, kw, inv, att):
        """deterministic body: ('ok', value) or ('exc', e)"""
        nd = self.spec['nodes'][idx]
        for i, a, cls in nd.get('fails', []):
            if i == inv and a == att:
                return ('exc', progen.EXC[cls](idx, inv, att))
        fh = nd.get('fail_hash')
        if fh:
            # input-dependent failure: a deterministic function of the arguments (which carry their whole provenance)
            ks = ','.join(f'{k}={progen.fmt_val(v)}' for k, v in sorted((progen._key(k), v) for k, v in kw.items()))
            if progen.fnv1a64(ks) % fh[0] == fh[1]:
                return ('exc', progen.EXC[fh[2]](idx, inv, att))
        if nd.get('is_rec') and inv < nd.get('recur_k', 0):
            return ('ok', inst.next_iteration(f'it{inv}'))
        b = nd.get('body', {'kind': 'prov'})
        if b['kind'] == 'prov':
            return ('ok', progen.prov(nd['name'], kw))
        if b['kind'] == 'labels':           # a decision that may change from one invocation (iteration) to the next
            return ('ok', b['v'][min(inv, len(b['v']) - 1)])
        if b['kind'] == 'labelhash':        # a decision that depends on the arguments (so, on the input of the run)
            ks = ','.join(f'{k}={progen.fmt_val(v)}' for k, v in sorted((progen._key(k), v) for k, v in kw.items()))
            return ('ok', b['v'][progen.fnv1a64(ks) % len(b['v'])])
        return ('ok', b['v'])

    async def abody(self, idx, inst, kw):
        self._fresh(inst)
        r, inv, att = self._counters(idx)
        self.obs.append(['body', r.rid, idx, inv, att, {progen._key(k): progen.canon(v) for k, v in kw.items()}])
        out = self._outcome(idx, inst, kw, inv, att)
        g = Gate(r.rid, idx, inv, att, fut=self.loop.create_future(), outcome=out)
        self.gates.append(g)
        self.obs.append(['gate', g.key])
        await g.fut
        if out[0] == 'exc':
            raise out[1]
        return out[1]

    def sbody(self, idx, inst, kw):
        self._fresh(inst)
        r, inv, att = self._counters(idx)
        self.obs.append(['body', r.rid, idx, inv, att, {progen._key(k): progen.canon(v) for k, v in kw.items()}])
        out = self._outcome(idx, inst, kw, inv, att)
        if self.pending_submit is not None:      # running inside a (virtual) executor
            self.last_sync_gate = Gate(r.rid, idx, inv, att, outcome=out)
        if out[0] == 'exc':
            raise out[1]
        return out[1]

    def default(self, idx, kw):
        self.obs.append(['default', CURRENT_RUN.get().rid, idx, {progen._key(k): progen.canon(v) for k, v in kw.items()}])
        cls = self.spec['nodes'][idx].get('dflt_raise')
        if cls:
            # a get_default that fails with a user error (T0 is a TypeError, V0 a ValueError)
            raise progen.EXC[cls](idx, 0, 0)
        return progen.prov(self.spec['nodes'][idx]['name'] + '.default', kw)

    # -- driving ---------------------------------------------------------------------------
    def start_run(self, rid, input_kwargs):
        ctx = RunCtx(rid, self, input_kwargs)
        self.runs[rid] = ctx

        async def caller():
            CURRENT_RUN.set(ctx)
            try:
                res = await self.chart.run(input_kwargs=input_kwargs)
                ctx.result = tuple(self._res_canon(res))
            except asyncio.CancelledError:
                ctx.result = ('cancelled',)
                raise
            except BaseException as e:  # noqa
                ctx.result = ('raised', progen.exc_ident(e))
        tok = CURRENT_RUN.set(ctx)
        try:
            ctx.task = self.loop.create_task(caller(), name=f'caller{rid}')
        finally:
            CURRENT_RUN.reset(tok)
        return ctx

    def live_gates(self):
        self.gates = [g for g in self.gates if g.alive()]
        return self.gates

    def release(self, g):
        if g.fut is not None:
            g.fut.set_result(None)
        else:
            if g.outcome[0] == 'ok':
                g.cfut.set_result(g.outcome[1])
            else:
                g.cfut.set_exception(g.outcome[1])
            for ex in getattr(self, 'executors', []):
                ex.worker_freed()
        self.loop.run_plumbing()

    def close(self):
        from ml_pipeline_engine.parallelism import process_pool_registry, threads_pool_registry
        (threads_pool_registry._pool_executor, process_pool_registry._pool_executor,
         process_pool_registry._process_manager) = self._saved_pools
        _LOOP_HOLDER['world'] = None
        try:
            self.loop.end()
        except Exception:  # noqa
            pass
        # drop anything still pending without running it
        for t in self.loop.tasks:
            if not t.done():
                t._log_destroy_pending = False
        self.loop._ready.clear()
        self.loop._scheduled.clear()
        self.loop.close()


MAX_HANDLES = 4000


class Policy:
    """default: run to quiescence, then release gates / fire timers in a seeded random order"""

    def __init__(self, rng=None, early_p=0.0, cancel_at=None, script=None):
        self.rng = rng or random.Random(0)
        self.early_p = early_p
        self.cancel_at = cancel_at     # handle index before which the caller (run 0) is cancelled
        self.script = script           # explicit list of choices to replay

    def choose(self, world, nhandles, ready, gates, timers):
        """returns ('step',) | ('gate', key) | ('timer',) | ('cancel', rid) | ('stop',)"""
        if self.cancel_at is not None and nhandles == self.cancel_at:
            self.cancel_at = None
            return ('cancel', 0)
        if ready and not (gates or timers):
            return ('step',)
        if ready:
            if self.early_p and self.rng.random() < self.early_p:
                opts = [('gate', g.key) for g in gates] + ([('timer',)] if timers else [])
                return self.rng.choice(opts)
            return ('step',)
        opts = [('gate', g.key) for g in gates] + ([('timer',)] if timers else [])
        if not opts:
            return ('stop',)
        return self.rng.choice(opts)


class ScriptPolicy(Policy):
    """replays an explicit list of choices; when it is exhausted (or a scripted choice is not available) falls
    back to: run ready handles first, then the first pending external.  `points` records, for every decision
    taken after the script ended, how many options there were (used by the exhaustive enumeration)."""

    def __init__(self, script, quiescent_only=True):
        super().__init__()
        self.script = [tuple(x) if not isinstance(x, tuple) else x for x in script]
        self.i = 0
        self.bad = False

    def choose(self, world, nhandles, ready, gates, timers):
        if self.i < len(self.script):
            ch = self.script[self.i]
            self.i += 1
            ch = (ch[0],) + tuple(list(x) if isinstance(x, (list, tuple)) else x for x in ch[1:])
            if ch[0] == 'step' and ready:
                return ('step',)
            if ch[0] == 'gate' and any(g.key == list(ch[1]) for g in gates):
                return ('gate', list(ch[1]))
            if ch[0] == 'timer' and timers:
                return ('timer',)
            if ch[0] == 'cancel':
                return ('cancel', ch[1])
            if ch[0] == 'stop' and not ready and not gates and not timers:
                # (a recorded deadlock is a deadlock only if the loop really is idle here: on repaired code the run goes on)
                return ('stop',)
            self.bad = True
        if ready:
            return ('step',)
        opts = [('gate', g.key) for g in gates] + ([('timer',)] if timers else [])
        return opts[0] if opts else ('stop',)


def options_at_quiescence(gates, timers):
    return [('gate', g.key) for g in gates] + ([('timer',)] if timers else [])


class EnumPolicy(Policy):
    """quiescent-point enumeration: run to quiescence, then take option number idx[k] at the k-th decision
    point (0 beyond the prefix) and remember how many options there were."""

    def __init__(self, idx):
        super().__init__()
        self.idx = list(idx)
        self.k = 0
        self.widths = []

    def choose(self, world, nhandles, ready, gates, timers):
        if ready:
            return ('step',)
        opts = options_at_quiescence(gates, timers)
        if not opts:
            return ('stop',)
        j = self.idx[self.k] if self.k < len(self.idx) else 0
        self.k += 1
        self.widths.append(len(opts))
        return opts[min(j, len(opts) - 1)]


class HoldPolicy(Policy):
    """one delayed node: run to quiescence and take the first pending external that does not belong to node `hold`, until
    `after` decisions have been taken; from then on a pending external of `hold` is taken as soon as there is one.  (Every
    window "X happens while Y is still outstanding" with a single delayed node is some (hold, after).)"""

    def __init__(self, hold, after):
        super().__init__()
        self.hold, self.after, self.k = hold, after, 0

    def choose(self, world, nhandles, ready, gates, timers):
        if ready:
            return ('step',)
        opts = options_at_quiescence(gates, timers)
        if not opts:
            return ('stop',)
        mine = [o for o in opts if o[0] == 'gate' and o[1][1] == self.hold]
        other = [o for o in opts if not (o[0] == 'gate' and o[1][1] == self.hold)]
        self.k += 1
        if self.k > self.after:
            return (mine or other)[0]
        return (other or mine)[0]


def hold_schedules(spec, limit=400, **kw):
    """the one-delayed-node schedules of a program: every node × every release point of the undelayed run"""
    base = EnumPolicy([])
    tr0 = run_program(spec, base, **kw)
    out = []
    n_dec = len(base.widths)
    for h in range(1, len(spec['nodes'])):
        for after in range(1, n_dec + 1):
            if len(out) >= limit:
                return out
            out.append(run_program(spec, HoldPolicy(h, after), **kw))
    return out


def enumerate_quiescent(spec, limit=40, **kw):
    """all quiescent-point schedules of a program (depth-first), at most `limit` of them"""
    out, stack = [], [[]]
    while stack and len(out) < limit:
        pre = stack.pop()
        pol = EnumPolicy(pre)
        tr = run_program(spec, pol, **kw)
        out.append(tr)
        for k in range(len(pre), len(pol.widths)):
            for j in range(1, pol.widths[k]):
                stack.append(pre + [0] * (k - len(pre)) + [j])
    return out, (not stack)


def run_program(spec, policy, n_runs=1, inputs=None, drain=True, world=None, keep_world=False):
    """returns trace dict: {graph, cfg, events: [...], result(s), verdict}"""
    w = world or World(spec)
    loop = w.loop
    loop.begin()
    events = []
    try:
        ctxs = []
        first_task = len(loop.tasks)
        for r in range(n_runs):
            # a caller's own dict is handed to chart.run as it is (the caller may look at it afterwards, and may reuse it)
            ik = inputs[r] if inputs else dict(spec['input_kwargs'])
            ctxs.append(w.start_run(r, ik))
        if w.obs:
            events.append({'k': 'init', 'obs': w.take_obs()})
        nh = 0
        choices = []
        verdict = None
        done_seen = {t.idx for t in loop.tasks if t.idx < first_task}
        while nh < MAX_HANDLES:
            ready = loop.ready_tasks()
            gates = w.live_gates()
            timers = loop.live_timers()
            if all(c.task.done() for c in ctxs):
                verdict = 'finished'
                break
            ch = policy.choose(w, nh, ready, gates, timers)
            choices.append(list(ch))
            if ch[0] == 'stop' or (ch[0] == 'step' and not ready):
                verdict = 'deadlock'
                break
            if ch[0] == 'step':
                loop.timers_created.clear()
                tid = loop.step()
                nh += 1
                tk = loop.tasks[tid]
                ev = {'k': 'step', 't': tk.local, 'rid': tk.rid, 'obs': w.take_obs()}
                if loop.timers_created:
                    ev['obs'] = ev['obs'] + [['sleep', d] for d in loop.timers_created]
            elif ch[0] == 'gate':
                g = next(g for g in gates if g.key == ch[1])
                w.release(g)
                ev = {'k': 'gate', 'g': g.key, 'obs': w.take_obs(), 'idle': not ready}
            elif ch[0] == 'timer':
                before = set(loop.ready_tasks())
                loop.fire_next_timer()
                woken = [t for t in loop.ready_tasks() if t not in before]
                ev = {'k': 'timer', 'woken': [loop.tasks[t].local for t in woken],
                      'rid': loop.tasks[woken[0]].rid if woken else 0, 'obs': w.take_obs(), 'idle': not ready}
            elif ch[0] == 'cancel':
                ctxs[ch[1]].task.cancel()
                loop.run_plumbing()
                ev = {'k': 'cancel', 'rid': ch[1], 'obs': w.take_obs()}
            newly = [t for t in loop.tasks if t.done() and t.idx not in done_seen]
            for t in newly:
                done_seen.add(t.idx)
            ev['done'] = [[t.local, _status(t), t.rid] for t in newly]
            events.append(ev)
        else:
            verdict = 'handle-limit'
        # C13: after the callers are done, drain what is left and record anything that still happens
        after = []
        leftovers = []
        obs2_at_end = len(w.obs2)
        if verdict == 'finished' and drain:
            n = 0
            while n < 500:
                if not loop.ready_tasks():
                    # bodies and timers that are still outstanding complete after the run ended: nothing may come of it
                    gs = w.live_gates()
                    if gs:
                        w.release(gs[0])
                    elif loop.live_timers():
                        loop.fire_next_timer()
                    if not loop.ready_tasks():
                        if w.live_gates() or loop.live_timers():
                            n += 1
                            continue
                        break
                tid = loop.step()
                n += 1
                tk = loop.tasks[tid]
                newly = [t for t in loop.tasks if t.done() and t.idx not in done_seen]
                for t in newly:
                    done_seen.add(t.idx)
                after.append({'k': 'step', 't': tk.local, 'rid': tk.rid, 'obs': w.take_obs(),
                              'done': [[t.local, _status(t), t.rid] for t in newly]})
            rest = w.take_obs()
            if rest:
                after.append({'k': 'rest', 'obs': rest, 'done': []})
            leftovers = [[t.rid, t.local] for t in loop.tasks if not t.done() and t.idx >= first_task]
        res = {
            'graph': w.graph, 'spec': spec, 'events': events, 'after': after, 'leftover_tasks': leftovers,
            'live_gates_at_end': [g.key for g in w.live_gates()],
            'saved_completed': [list(x) for x in w.saved],
            'obs2': [list(x) for x in w.obs2], 'obs2_at_end': obs2_at_end,
            'live_timers_at_end': len(loop.live_timers()),
            'verdict': verdict,
            'results': [list(c.result) if c.result else (['cancelled'] if c.task.cancelled() else None) for c in ctxs],
            'lock_slow_path': loop.lock_slow_path, 'handles': nh, 'choices': choices,
            'inputs': [{k: progen.canon(v) for k, v in c.input_kwargs.items()} for c in ctxs],
        }
        return res
    finally:
        if not keep_world:
            w.close()


def _status(t):
    if t.cancelled():
        return ['cancelled']
    e = t.exception()
    if e is not None:
        return ['exc', progen.exc_ident(e)]
    return ['ok']

"""C18 — differential check of FileSystemArtifactStore against the Lean model `MLPE.Store`
(theorem `C18_refines_map`: the model refines a write-once map keyed by (model, pipeline, node id)).

Every generated operation sequence is executed on the real store (scratch directory) and on the
model; the result streams are compared.  Every result the model can produce is a clause of the
property (value / already-exists / does-not-exist / dump-failed), so a divergence in a result IS a
failing input for C18.  Directory listings are compared too but only reported as model-internal
differences (file naming is not part of the property).
"""
import asyncio
import enum
import json
import os
import random
import shutil
import sys
import tempfile
import warnings
from pathlib import Path

from . import common as C

warnings.filterwarnings('ignore')

IDS = ['a', 'a.b', 'a.b.c', 'a.pickle', 'a.json', 'a.json.pickle', 'a.*', '*', '?', '[ab]', 'a[', 'ab', 'b',
       '.a', 'a.', 'A', 'a b', 'ä', 'a..b', '**', 'a?', '[!a]', 'processor__m_N1', 'switch__s.1', 'x' * 40]
CTXS = [('m', 'p'), ('m', 'q'), ('m2', 'p'), ('m.x', 'p.1'), ('ENUM', 'p')]


class _ModelEnum(str, enum.Enum):
    ENUM = 'ENUM'


class _Abort(BaseException):
    """an interruption that is not an `Exception` (like KeyboardInterrupt / CancelledError) arriving while an artifact is
    being written"""


class _Bomb(dict):
    """a value whose serialisation is interrupted by a BaseException, in either format, after the file has been opened"""

    def items(self):
        raise _Abort('interrupted while dumping (json)')

    def __reduce_ex__(self, protocol):
        raise _Abort('interrupted while dumping (pickle)')


def value_pool():
    """(token, python value, pickle_ok, json_ok).  JSON-representable = round-trips through json."""
    return [
        ('dict', {'k': [1, 2, {'z': None}], 'ä': 'ü'}, True, True),
        ('list', [1, 'two', 3.5, None, True], True, True),
        ('str', 'héllo', True, True),
        ('int', 42, True, True),
        ('zero', 0, True, True),
        ('none', None, True, True),
        ('empty', '', True, True),
        ('false', False, True, True),
        ('set', {1, 2, 3}, True, False),                 # picklable, not JSON-representable
        ('bytes', b'\x00\x01', True, False),
        ('lambda', (lambda: 1), False, False),           # neither
        ('cplx', {'a': complex(1, 2)}, True, False),
        ('bomb', _Bomb(a=1), False, False),              # the dump is interrupted by a BaseException outside Exception
    ]


def gen_sequence(rng: random.Random, max_len: int):
    pool = value_pool()
    ids = rng.sample(IDS, rng.randint(2, 5))
    # bias towards ids that are prefixes / glob patterns of one another
    if rng.random() < 0.6:
        base = rng.choice(['a', 'a.b', 'x'])
        ids += [base, base + '.y', base + '.*', base + '.pickle', '[' + base[0] + ']', base + '?'][: rng.randint(2, 6)]
    ctxs = rng.sample(CTXS, rng.randint(1, 3))
    ops = []
    for _ in range(rng.randint(3, max_len)):
        ctx = rng.choice(ctxs)
        nid = rng.choice(ids)
        if rng.random() < 0.55:
            tok, _, pk, js = rng.choice(pool)
            ops.append({'op': 'save', 'model': ctx[0], 'pipeline': ctx[1], 'node': nid,
                        'fmt': rng.choice(['pickle', 'json', 'json', 'default']), 'val': tok,
                        'pickle_ok': pk, 'json_ok': js})
        else:
            ops.append({'op': 'load', 'model': ctx[0], 'pipeline': ctx[1], 'node': nid})
    # final probe: load every key that was touched (compares the final abstract state)
    seen = []
    for o in ops:
        k = (o['model'], o['pipeline'], o['node'])
        if k not in seen:
            seen.append(k)
    for m, p, n in seen:
        ops.append({'op': 'load', 'model': m, 'pipeline': p, 'node': n})
    return ops


def _strict_eq(a, b):
    return type(a) is type(b) and a == b


def run_impl(ops):
    """run on the real store; returns list of canonical result strings (+ listing)."""
    from ml_pipeline_engine.artifact_store.enums import DataFormat
    from ml_pipeline_engine.artifact_store.errors import ArtifactAlreadyExists, ArtifactDoesNotExist
    from ml_pipeline_engine.artifact_store.store.filesystem import FileSystemArtifactStore

    pool = value_pool()
    byTok = {t: v for t, v, _, _ in pool}
    root = Path(tempfile.mkdtemp(prefix='mlpe_c18_'))
    out = []
    stores = {}

    class Ctx:
        def __init__(self, m, p):
            self.model_name = _ModelEnum.ENUM if m == 'ENUM' else m
            self.pipeline_id = p

    async def go():
        for o in ops:
            key = (o['model'], o['pipeline'])
            if key not in stores:
                stores[key] = FileSystemArtifactStore(ctx=Ctx(*key), artifact_dir=root)
            st = stores[key]
            try:
                if o['op'] == 'save':
                    kw = {} if o['fmt'] == 'default' else {'fmt': DataFormat(o['fmt'])}
                    await st.save(o['node'], byTok[o['val']], **kw)
                    r = 'ok'
                else:
                    v = await st.load(o['node'])
                    toks = [t for t, pv, _, _ in pool if _strict_eq(pv, v)]
                    r = 'value ' + (toks[0] if toks else '?' + repr(v)[:40])
            except ArtifactAlreadyExists:
                r = 'already-exists'
            except ArtifactDoesNotExist:
                r = 'does-not-exist'
            except (Exception, _Abort) as e:  # noqa
                r = 'dump-failed' if o['op'] == 'save' else f'load-raised {type(e).__name__}'
            listing = sorted(str(p.relative_to(root)) for p in root.rglob('*') if p.is_file())
            out.append((r, '|'.join(listing)))

    try:
        asyncio.run(go())
    finally:
        shutil.rmtree(root, ignore_errors=True)
    return out


def to_model_lines(ops):
    lines = []
    for o in ops:
        o2 = dict(o)
        if o2.get('fmt') == 'default':
            o2['fmt'] = 'pickle'
        lines.append(json.dumps(o2, ensure_ascii=False))
    return lines


def compare(seqs):
    """returns (divergences, listing_diffs, stats). One driver process for all sequences."""
    lines = []
    for ops in seqs:
        lines.append('reset')
        lines += to_model_lines(ops)
    mout = C.run_driver(['store'], lines)
    divs, ldiffs = [], 0
    kinds = {}
    j = 0
    for si, ops in enumerate(seqs):
        assert mout[j] == 'reset', mout[j]
        j += 1
        impl = run_impl(ops)
        first = None
        for i, o in enumerate(ops):
            mres, _, mlist = mout[j + i].partition(' ## ')
            ires, ilist = impl[i]
            kinds[mres.split()[0]] = kinds.get(mres.split()[0], 0) + 1
            if ires != mres and first is None:
                first = {'index': i, 'op': o, 'model': mres, 'impl': ires}
            if ilist != mlist:
                ldiffs += 1
        j += len(ops)
        if first:
            divs.append((si, first))
    return divs, ldiffs, kinds


def shrink(ops, still_fails):
    """greedy removal of operations while the sequence still diverges."""
    cur = list(ops)
    changed = True
    while changed and len(cur) > 1:
        changed = False
        for i in range(len(cur) - 1, -1, -1):
            cand = cur[:i] + cur[i + 1:]
            if cand and still_fails(cand):
                cur = cand
                changed = True
    return cur


def explain(first):
    m, i = first['model'], first['impl']
    if first['op']['op'] == 'save':
        if m == 'ok':
            return f"save of a serializable value under a free key was refused/failed ({i})"
        if m == 'already-exists':
            return f"second save under an existing key was not rejected ({i})"
        if m == 'dump-failed':
            return f"save of an unserializable value did not fail cleanly ({i})"
    else:
        if m.startswith('value'):
            return f"load after save did not return the saved value (expected {m}, got {i})"
        if m == 'does-not-exist':
            return f"load of a key never (successfully) saved did not raise ArtifactDoesNotExist (got {i})"
    return f'expected {m}, got {i}'


def finding_key(ops):
    """identify a failing history by its shrunk canonical op list"""
    return json.dumps([[o['op'], o['node'], o.get('fmt'), o.get('val')] for o in ops], ensure_ascii=False)


def main(tier_):
    T = C.Timer()
    sys.path.insert(0, str(C.REPO))
    aud = C.audit('C18')
    rng = random.Random(C.seed() * 7919 + 18)
    n = 400 if tier_ == 'quick' else 6000
    max_len = 10 if tier_ == 'quick' else 14
    corpus = []
    cf = C.VERIF / 'corpus' / 'C18.json'
    if cf.exists():
        corpus = json.loads(cf.read_text())
    seqs = [c['ops'] for c in corpus] + [gen_sequence(rng, max_len) for _ in range(n)]
    divs, ldiffs, kinds = compare(seqs)

    known = [f for f in C.load_known_findings().get('findings', []) if f['property'] == 'C18']
    knownKeys = {f['key']: f for f in known}
    new_viol = []
    reported_known = set()
    for si, first in divs:
        ops = seqs[si]

        def fails(cand):
            d, _, _ = compare([cand])
            return bool(d)
        small = shrink(ops[: first['index'] + 1], fails)
        d, _, _ = compare([small])
        f1 = d[0][1] if d else first
        k = finding_key(small)
        if k in knownKeys:
            reported_known.add(k)
            continue
        new_viol.append({'ops': small, 'first_divergence': f1, 'what': explain(f1), 'key': k})
        if len(new_viol) >= 5:
            break
    for k in reported_known:
        print(f"KNOWN-FINDING: property=C18 {knownKeys[k]['what']}")

    distinct = len({json.dumps(s, sort_keys=True) for s in seqs if len({o['node'] for o in s}) > 1})
    cov = dict(aud)
    cov.update({
        'evaluations': sum(len(s) for s in seqs), 'programs': len(seqs),
        'distinct_nontrivial': distinct,
        'rule': 'op sequences (save/load, both formats + default, 1-3 contexts, adversarial ids: dots, glob metacharacters, '
                'prefixes, known extensions) + final probe of every touched key; non-trivial = touches ≥2 distinct node ids; '
                'distinct by full op list',
        'disagreements_checked': len(divs),
        'model_result_kinds': kinds,
        'listing_differences_model_internal': ldiffs,
        'samples': seqs[len(corpus): len(corpus) + 2],
        'theorem_tie': 'results of every sequence compared impl vs MLPE.Store.run (the function C18_refines_map is about)',
    })
    if new_viol:
        v = new_viol[0]
        C.write_evidence('C18', tier_, 'proof', cov, T.s(), violations=len(new_viol))
        C.report_violation('C18', {'property': 'C18', 'kind': 'failing-history', 'what': v['what'],
                                   'ops': v['ops'], 'first_divergence': v['first_divergence'],
                                   'replay': 'python -m harness.pure_store --replay <this file>',
                                   'all': new_viol})
        return C.EXIT_VIOLATION
    C.write_evidence('C18', tier_, 'proof', cov, T.s(), assumptions=[
        'pickle/json round trip of the serializers is a hypothesis of the theorem (Codec.RoundTrip); sampled here',
        'node ids are file-name stems: non-empty, no path separator'])
    return C.EXIT_OK


def replay(path):
    sys.path.insert(0, str(C.REPO))
    doc = json.loads(Path(path).read_text())
    ops = doc['ops']
    d, _, _ = compare([ops])
    impl = run_impl(ops)
    for o, r in zip(ops, impl):
        print(json.dumps(o, ensure_ascii=False), '->', r[0])
    print('DIVERGES' if d else 'agrees', d[0][1] if d else '')
    return 1 if d else 0

"""Print the prompt handed to a mutation sub-agent for one property (property text only; nothing from /verif)."""
import json
import sys
from pathlib import Path

TEMPLATE = '''You are testing how robust a Python library is against subtle regressions. The library is
tochka-public/ml-pipeline-engine (a small asyncio DAG execution engine). You have your OWN scratch git worktree of it at
{wt} . Work ONLY inside {wt} and {out} — never touch /repo and never read or write anything under /verif.

Here is a semantic property the library is supposed to satisfy:

--- PROPERTY {pid}: {title} ---
{statement}
Quantified over: {qtext}
---

Your task: produce {n} DIFFERENT, realistic source change(s) to the library (files under {wt}/ml_pipeline_engine or
{wt}/ml_pipeline_viewer; NOT the tests) that BREAK this property, while
  (a) the code still imports and the existing test suite still passes exactly as before: run
      cd {wt} && /venv/bin/python -m pytest -q -p no:cacheprovider --timeout=900 -x --deselect tests/visualization
      (62 tests pass on the unchanged tree; tests/visualization fails for unrelated reasons, ignore it), and
  (b) the breakage needs something SPECIFIC to manifest — a particular interleaving of node completions, a fault at a
      particular point, a multi-step sequence of operations, an unusual input/shape, or two cooperating sites that each
      look fine alone — i.e. NOT something ordinary use or a trivial smoke test would expose at once. Think of the kind of
      bug a plausible refactor, optimisation or "simplification" by a maintainer would introduce.
For each change write a demonstration: a small standalone Python program (or pytest file) that FAILS (exit code != 0) with the
change applied and PASSES (exit 0) on the unchanged tree. Run it both ways yourself to confirm (use `git stash` / `git diff >
patch` / `git checkout -- .` inside your worktree to switch). Run demos with:  cd {wt} && PYTHONPATH={wt} /venv/bin/python demo.py
(The package is not pip-installed; PYTHONPATH is how it is imported. Python is 3.12, no network.)

Deliverables, for change k = 1..{n}, in {out}/{pid}_k/ :
  patch.diff   — `git diff` of the change against the worktree HEAD (apply-able with `git apply`)
  demo.py      — the demonstration (exit 0 on the unchanged tree, non-zero with the patch)
  meta.json    — {{"property": "{pid}", "summary": "...what the change does...", "needs": "...what is needed for the breakage to
                 manifest...", "ran": ["commands you ran and their outcomes"]}}
Leave the worktree clean (git checkout -- . && git clean -fd) when done. Reply with a 5-line summary of each change.
Useful reading: {wt}/README.md, {wt}/docs, {wt}/tests (for how pipelines are declared), and the source itself.'''


def main():
    pid, wt, out, n = sys.argv[1], sys.argv[2], sys.argv[3], sys.argv[4]
    for line in (Path(__file__).resolve().parent.parent / 'properties.jsonl').read_text().splitlines():
        p = json.loads(line)
        if p['id'] == pid:
            print(TEMPLATE.format(pid=pid, wt=wt, out=out, n=n, title=p['title'], statement=p['statement'],
                                  qtext=p['quantifier']['text']))
            return
    raise SystemExit('unknown property')


if __name__ == '__main__':
    main()

"""hand-written witness programs of the defects found on the unchanged tree (regression corpus)"""
import json
from pathlib import Path


def node(i, marks=(), **kw):
    d = dict(name=f'N{i}', marks=[list(m) for m in marks], plain=['x'] if i == 0 else [], attempts=None, delay=None,
             exceptions=None, use_default=False, mode='coro', body={'kind': 'prov'}, fails=[], recur_k=0,
             is_rec=False, has_additional=False)
    d.update(kw)
    return d


def inp(s):
    return {'kind': 'input', 'src': s}


def spec(nodes, out=None):
    return {'nodes': nodes, 'input': 0, 'output': len(nodes) - 1 if out is None else out, 'input_kwargs': {'x': 'v'}}


FAIL = [[0, 1, 'E0']]
CORPUS = {
    'P1_oneof_deep_failure': spec([
        node(0), node(1, fails=FAIL), node(2, [('a', inp(1))]), node(3, [('a', inp(2))]), node(4, [('a', inp(3))]),
        node(5), node(6, [('a', {'kind': 'oneof', 'cands': [4, 5]})])]),
    'P2_oneof_none_candidate': spec([
        node(0), node(1, body={'kind': 'const', 'v': None}), node(2, [('a', {'kind': 'oneof', 'cands': [1]})])]),
    'P3_switch_unknown_label': spec([
        node(0), node(1, body={'kind': 'label', 'v': 'unknown'}), node(2),
        node(3, [('a', {'kind': 'switch', 'decider': 1, 'cases': [['l0', 2]], 'name': 'sw0'})])]),
    'P4_switch_case_shared_with_consumer': spec([
        node(0), node(1, body={'kind': 'label', 'v': 'l0'}), node(2),
        node(3, [('a', {'kind': 'switch', 'decider': 1, 'cases': [['l0', 2]], 'name': 'sw0'}), ('b', inp(2))])]),
    'P5_oneof_cancelled_helper': spec([
        node(0), node(1, fails=FAIL), node(2, [('a', inp(1))]), node(3), node(4, [('a', inp(2)), ('b', inp(3))]),
        node(5), node(6, [('a', {'kind': 'oneof', 'cands': [4, 5]})])]),
    'P13_switch_waits_for_shared_case': spec([
        node(0), node(1, body={'kind': 'label', 'v': 'l0'}), node(2), node(3, [('a', inp(2))]),
        node(4, [('a', {'kind': 'switch', 'decider': 1, 'cases': [['l0', 2]], 'name': 'sw0'}), ('b', inp(3))])]),
    # a failing ancestor shared by a one-of candidate and an outside consumer: the one-of scope stored its exception
    # as the node's value and the outside consumer was invoked with the exception object (sweep seed 2065)
    'P17_oneof_scope_error_reaches_outside_consumer': spec([
        node(0), node(1), node(2, [('a', inp(1)), ('b', inp(0))]), node(3, [('a', inp(1))], fails=[[0, 1, 'E2']]),
        node(4, [('a', inp(3))]), node(5, [('a', {'kind': 'oneof', 'cands': [4, 2]}), ('b', inp(0))]),
        node(6, [('a', inp(3)), ('b', inp(0)), ('c', inp(5))])]),
}

if __name__ == '__main__':
    p = Path(__file__).resolve().parent.parent / 'corpus' / 'sched.json'
    p.write_text(json.dumps(CORPUS, indent=1) + '\n')
    print('wrote', p)

"""hand-written witness programs of the defects found on the unchanged tree (regression corpus)"""
import json
from pathlib import Path


def node(i, marks=(), **kw):
    d = dict(name=f'N{i}', marks=[list(m) for m in marks], plain=['x'] if i == 0 else [], attempts=None, delay=None,
             exceptions=None, use_default=False, mode='coro', body={'kind': 'prov'}, fails=[], recur_k=0,
             is_rec=False, has_additional=False)
    d.update(kw)
    return d


def inp(s):
    return {'kind': 'input', 'src': s}


def spec(nodes, out=None):
    return {'nodes': nodes, 'input': 0, 'output': len(nodes) - 1 if out is None else out, 'input_kwargs': {'x': 'v'}}


FAIL = [[0, 1, 'E0']]
CORPUS = {
    'P1_oneof_deep_failure': spec([
        node(0), node(1, fails=FAIL), node(2, [('a', inp(1))]), node(3, [('a', inp(2))]), node(4, [('a', inp(3))]),
        node(5), node(6, [('a', {'kind': 'oneof', 'cands': [4, 5]})])]),
    'P2_oneof_none_candidate': spec([
        node(0), node(1, body={'kind': 'const', 'v': None}), node(2, [('a', {'kind': 'oneof', 'cands': [1]})])]),
    'P3_switch_unknown_label': spec([
        node(0), node(1, body={'kind': 'label', 'v': 'unknown'}), node(2),
        node(3, [('a', {'kind': 'switch', 'decider': 1, 'cases': [['l0', 2]], 'name': 'sw0'})])]),
    'P4_switch_case_shared_with_consumer': spec([
        node(0), node(1, body={'kind': 'label', 'v': 'l0'}), node(2),
        node(3, [('a', {'kind': 'switch', 'decider': 1, 'cases': [['l0', 2]], 'name': 'sw0'}), ('b', inp(2))])]),
    'P5_oneof_cancelled_helper': spec([
        node(0), node(1, fails=FAIL), node(2, [('a', inp(1))]), node(3), node(4, [('a', inp(2)), ('b', inp(3))]),
        node(5), node(6, [('a', {'kind': 'oneof', 'cands': [4, 5]})])]),
    'P13_switch_waits_for_shared_case': spec([
        node(0), node(1, body={'kind': 'label', 'v': 'l0'}), node(2), node(3, [('a', inp(2))]),
        node(4, [('a', {'kind': 'switch', 'decider': 1, 'cases': [['l0', 2]], 'name': 'sw0'}), ('b', inp(3))])]),
    # a failing ancestor shared by a one-of candidate and an outside consumer: the one-of scope stored its exception
    # as the node's value and the outside consumer was invoked with the exception object (sweep seed 2065)
    'P17_oneof_scope_error_reaches_outside_consumer': spec([
        node(0), node(1), node(2, [('a', inp(1)), ('b', inp(0))]), node(3, [('a', inp(1))], fails=[[0, 1, 'E2']]),
        node(4, [('a', inp(3))]), node(5, [('a', {'kind': 'oneof', 'cands': [4, 2]}), ('b', inp(0))]),
        node(6, [('a', inp(3)), ('b', inp(0)), ('c', inp(5))])]),
    # a one-of evaluated late (inside a switch case) whose first candidate consumes the result of another one-of that had a
    # losing candidate earlier: the losing candidate's exception was in the candidate's reduced DAG and the candidate was
    # declared failed (the second candidate's value was returned)
    'P18_oneof_after_losing_candidate': spec([
        node(0), node(1, fails=FAIL), node(2), node(3, [('a', {'kind': 'oneof', 'cands': [1, 2]})]), node(4, [('a', inp(3))]),
        node(5), node(6, [('a', inp(3))], body={'kind': 'label', 'v': 'l0'}),
        node(7, [('a', {'kind': 'oneof', 'cands': [4, 5]})]),
        node(8, [('a', {'kind': 'switch', 'decider': 6, 'cases': [['l0', 7]], 'name': 'sw0'}), ('b', inp(3))])]),
    # one-of [A, B]; A consumes a switch whose selected case K depends on a failing node J: K is never computed, nothing in
    # A's reduced DAG carries an error — the run hung in every schedule (fix 3319e5b)
    'P19_switch_case_dependency_fails_inside_candidate': spec([
        node(0), node(1, body={'kind': 'label', 'v': 'l0'}), node(2, fails=FAIL), node(3, [('a', inp(2))]),
        node(4, [('a', {'kind': 'switch', 'decider': 1, 'cases': [['l0', 3]], 'name': 'sw0'})]), node(5),
        node(6, [('a', {'kind': 'oneof', 'cands': [4, 5]})])]),
    # a one-of nested in the case sub-DAG of a switch inside a candidate of another one-of (fix 272425c)
    'P20_oneof_in_case_of_switch_in_candidate': spec([
        node(0), node(1, [('a', inp(0))], fails=FAIL), node(2, [('a', inp(1))]),
        node(3, [('a', inp(0))], body={'kind': 'label', 'v': 'l0'}),
        node(4, [('a', inp(0)), ('b', {'kind': 'switch', 'decider': 3, 'cases': [['l0', 2]], 'name': 'sw0'})]),
        node(5, [('a', inp(0)), ('b', {'kind': 'oneof', 'cands': [4]})]),
        node(6, [('a', {'kind': 'switch', 'decider': 3, 'cases': [['l0', 5]], 'name': 'sw1'})]),
        node(7, [('a', {'kind': 'oneof', 'cands': [6]})])]),
    # a decision node that fails inside a one-of scope and also decides a switch of the main pipeline (fix 9505195)
    'P21_failed_decider_shared_with_main_switch': spec([
        node(0), node(1, [('a', inp(0))], fails=FAIL), node(2, body={'kind': 'label', 'v': 'l0'}),
        node(3, [('a', {'kind': 'switch', 'decider': 2, 'cases': [['l0', 1]], 'name': 'sw0'})], body={'kind': 'label', 'v': 'l0'}),
        node(4, [('a', inp(2))]), node(5, [('a', inp(4))]), node(6, [('a', inp(3))]),
        node(7, [('a', {'kind': 'oneof', 'cands': [6, 5]})]),
        node(8, [('a', inp(7)), ('b', {'kind': 'switch', 'decider': 3, 'cases': [['l0', 7]], 'name': 'sw1'})]),
        node(9, [('a', inp(2)), ('b', inp(8))])]),
    # a one-of candidate that is an ordinary dependency too (fix 07dff2b): of another candidate …
    'P15_candidate_read_by_another_candidate': spec([
        node(0), node(1, [('a', inp(0))]), node(2, [('a', inp(1)), ('b', inp(0))]),
        node(3, [('a', {'kind': 'oneof', 'cands': [2, 1]})])]),
    # … of the consumer of the one-of itself
    'P15b_candidate_also_plain_input_of_the_consumer': spec([
        node(0), node(1, [('a', inp(0))]),
        node(2, [('a', {'kind': 'oneof', 'cands': [1]}), ('b', inp(1))])]),
    # … of a node of the main pipeline, while an earlier candidate wins
    'P15c_losing_candidate_needed_by_main_pipeline': spec([
        node(0), node(1), node(2, [('a', inp(0))]), node(3, [('a', {'kind': 'oneof', 'cands': [1, 2]})]),
        node(4, [('a', inp(3)), ('b', inp(2))])]),
    # a recurrent subgraph inside a one-of candidate whose start node fails in the iteration after the other nodes were
    # launched: `_run_recurrent_subgraph` stopped silently, the destination kept its Recurrent result and the one-of
    # waited forever (thorough C02 run, seed 21; fix ba2b010)
    'P22_rec_in_candidate_stops_on_late_error': json.loads(r'''{"input": 0, "input_kwargs": {"x": "w"}, "nodes": [{"attempts": null, "body": {"kind": "prov"}, "delay": null, "exceptions": null, "fails": [], "has_additional": false, "is_rec": false, "marks": [], "mode": "coro", "name": "N0", "plain": ["x"], "recur_k": 0, "use_default": false}, {"attempts": null, "body": {"kind": "prov"}, "delay": null, "exceptions": null, "fails": [], "has_additional": false, "is_rec": false, "marks": [["a", {"kind": "input", "src": 0}]], "mode": "coro", "name": "N1", "plain": [], "recur_k": 0, "use_default": false}, {"attempts": null, "body": {"kind": "prov"}, "delay": null, "exceptions": null, "fails": [[0, 1, "E1"], [0, 2, "E1"]], "has_additional": true, "is_rec": false, "marks": [["a", {"kind": "input", "src": 0}]], "mode": "coro", "name": "N2", "plain": [], "recur_k": 0, "use_default": false}, {"attempts": null, "body": {"kind": "prov"}, "delay": null, "exceptions": null, "fails": [], "has_additional": false, "is_rec": false, "marks": [["a", {"cands": [1, 2], "kind": "oneof"}]], "mode": "coro", "name": "N3", "plain": [], "recur_k": 0, "use_default": false}, {"attempts": null, "body": {"kind": "const", "v": null}, "delay": null, "exceptions": null, "fails": [], "has_additional": false, "is_rec": false, "marks": [["a", {"cands": [3], "kind": "oneof"}]], "mode": "coro", "name": "N4", "plain": [], "recur_k": 0, "use_default": false}, {"attempts": null, "body": {"kind": "prov"}, "delay": null, "exceptions": null, "fails": [], "has_additional": false, "is_rec": true, "marks": [["a", {"cands": [4], "kind": "oneof"}]], "mode": "coro", "name": "N5", "plain": [], "recur_k": 2, "use_default": true}, {"attempts": null, "body": {"kind": "prov"}, "delay": null, "exceptions": null, "fails": [[0, 1, "E2"], [0, 2, "E2"]], "has_additional": false, "is_rec": false, "marks": [["a", {"dest": 5, "kind": "rec", "max": 1, "start": 2}]], "mode": "coro", "name": "N6", "plain": [], "recur_k": 0, "use_default": true}, {"attempts": null, "body": {"kind": "prov"}, "delay": null, "exceptions": null, "fails": [[0, 1, "E1"], [0, 2, "E1"]], "has_additional": false, "is_rec": false, "marks": [["a", {"kind": "input", "src": 0}]], "mode": "coro", "name": "N7", "plain": [], "recur_k": 0, "use_default": false}, {"attempts": null, "body": {"kind": "const", "v": null}, "delay": null, "exceptions": null, "fails": [[0, 1, "E2"]], "has_additional": false, "is_rec": false, "marks": [["a", {"cands": [7, 6], "kind": "oneof"}]], "mode": "coro", "name": "N8", "plain": [], "recur_k": 0, "use_default": true}], "output": 8}'''),
    'P23_switch_in_rec_stale_decision': json.loads(r'''{"input": 0, "input_kwargs": {"x": "v"}, "nodes": [{"attempts": null, "body": {"kind": "prov"}, "delay": null, "exceptions": null, "fails": [], "has_additional": false, "is_rec": false, "marks": [], "mode": "coro", "name": "N0", "plain": ["x"], "recur_k": 0, "use_default": false}, {"attempts": null, "body": {"kind": "prov"}, "delay": null, "exceptions": null, "fails": [], "has_additional": true, "is_rec": false, "marks": [], "mode": "coro", "name": "N1", "plain": [], "recur_k": 0, "use_default": false}, {"attempts": null, "body": {"kind": "labels", "v": ["l0", "l1"]}, "delay": null, "exceptions": null, "fails": [], "has_additional": false, "is_rec": false, "marks": [["a", {"kind": "input", "src": 1}]], "mode": "coro", "name": "N2", "plain": [], "recur_k": 0, "use_default": false}, {"attempts": null, "body": {"kind": "prov"}, "delay": null, "exceptions": null, "fails": [], "has_additional": false, "is_rec": false, "marks": [], "mode": "coro", "name": "N3", "plain": [], "recur_k": 0, "use_default": false}, {"attempts": null, "body": {"kind": "prov"}, "delay": null, "exceptions": null, "fails": [], "has_additional": false, "is_rec": false, "marks": [], "mode": "coro", "name": "N4", "plain": [], "recur_k": 0, "use_default": false}, {"attempts": null, "body": {"kind": "prov"}, "delay": null, "exceptions": null, "fails": [], "has_additional": false, "is_rec": false, "marks": [["a", {"cases": [["l0", 3], ["l1", 4]], "decider": 2, "kind": "switch", "name": "sw0"}]], "mode": "coro", "name": "N5", "plain": [], "recur_k": 0, "use_default": false}, {"attempts": null, "body": {"kind": "prov"}, "delay": null, "exceptions": null, "fails": [], "has_additional": false, "is_rec": true, "marks": [["a", {"kind": "input", "src": 5}]], "mode": "coro", "name": "N6", "plain": [], "recur_k": 1, "use_default": false}, {"attempts": null, "body": {"kind": "prov"}, "delay": null, "exceptions": null, "fails": [], "has_additional": false, "is_rec": false, "marks": [["a", {"dest": 6, "kind": "rec", "max": 2, "start": 1}]], "mode": "coro", "name": "N7", "plain": [], "recur_k": 0, "use_default": false}], "output": 7}'''),
    'P23b_switch_in_rec_new_case_fails': json.loads(r'''{"input": 0, "input_kwargs": {"x": "v"}, "nodes": [{"attempts": null, "body": {"kind": "prov"}, "delay": null, "exceptions": null, "fails": [], "has_additional": false, "is_rec": false, "marks": [], "mode": "coro", "name": "N0", "plain": ["x"], "recur_k": 0, "use_default": false}, {"attempts": null, "body": {"kind": "prov"}, "delay": null, "exceptions": null, "fails": [], "has_additional": true, "is_rec": false, "marks": [], "mode": "coro", "name": "N1", "plain": [], "recur_k": 0, "use_default": false}, {"attempts": null, "body": {"kind": "labels", "v": ["l0", "l1"]}, "delay": null, "exceptions": null, "fails": [], "has_additional": false, "is_rec": false, "marks": [["a", {"kind": "input", "src": 1}]], "mode": "coro", "name": "N2", "plain": [], "recur_k": 0, "use_default": false}, {"attempts": null, "body": {"kind": "prov"}, "delay": null, "exceptions": null, "fails": [], "has_additional": false, "is_rec": false, "marks": [], "mode": "coro", "name": "N3", "plain": [], "recur_k": 0, "use_default": false}, {"attempts": null, "body": {"kind": "prov"}, "delay": null, "exceptions": null, "fails": [[0, 1, "E0"]], "has_additional": false, "is_rec": false, "marks": [], "mode": "coro", "name": "N4", "plain": [], "recur_k": 0, "use_default": false}, {"attempts": null, "body": {"kind": "prov"}, "delay": null, "exceptions": null, "fails": [], "has_additional": false, "is_rec": false, "marks": [["a", {"cases": [["l0", 3], ["l1", 4]], "decider": 2, "kind": "switch", "name": "sw0"}]], "mode": "coro", "name": "N5", "plain": [], "recur_k": 0, "use_default": false}, {"attempts": null, "body": {"kind": "prov"}, "delay": null, "exceptions": null, "fails": [], "has_additional": false, "is_rec": true, "marks": [["a", {"kind": "input", "src": 5}]], "mode": "coro", "name": "N6", "plain": [], "recur_k": 1, "use_default": false}, {"attempts": null, "body": {"kind": "prov"}, "delay": null, "exceptions": null, "fails": [], "has_additional": false, "is_rec": false, "marks": [["a", {"dest": 6, "kind": "rec", "max": 2, "start": 1}]], "mode": "coro", "name": "N7", "plain": [], "recur_k": 0, "use_default": false}], "output": 7}'''),
    'P24_oneof_in_rec_candidate_fails_on_restart': json.loads(r'''{"cb": {"ncomplete": {"0": 2, "1": 2, "3": 2}, "nstart": {"1": 1, "3": 2, "5": 1}, "pcomplete": 1, "pstart": 1, "save": {"3": 1, "4": 1}}, "input": 0, "input_kwargs": {"x": "w"}, "nodes": [{"attempts": null, "body": {"kind": "prov"}, "delay": null, "exceptions": null, "fails": [], "has_additional": false, "is_rec": false, "marks": [], "mode": "coro", "name": "N0", "plain": ["x"], "recur_k": 0, "use_default": false}, {"attempts": 1, "body": {"kind": "const", "v": ""}, "delay": null, "exceptions": ["E0", "E2"], "fails": [], "has_additional": false, "is_rec": false, "marks": [["a", {"kind": "input", "src": 0}]], "mode": "coro", "name": "N1", "plain": [], "recur_k": 0, "use_default": false}, {"attempts": null, "body": {"kind": "prov"}, "delay": null, "exceptions": null, "fail_hash": [2, 1, "E1"], "fails": [], "has_additional": true, "is_rec": false, "marks": [["a", {"kind": "input", "src": 0}], ["b", {"cands": [1], "kind": "oneof"}]], "mode": "coro", "name": "N2", "plain": [], "recur_k": 0, "use_default": false}, {"attempts": 1, "body": {"kind": "prov"}, "delay": null, "exceptions": ["E1"], "fails": [], "has_additional": false, "is_rec": false, "marks": [["a", {"kind": "input", "src": 0}]], "mode": "coro", "name": "N3", "plain": [], "recur_k": 0, "use_default": false}, {"attempts": 2, "body": {"kind": "prov"}, "delay": 0, "exceptions": ["E2"], "fails": [], "has_additional": false, "is_rec": false, "marks": [["a", {"cands": [2, 3], "kind": "oneof"}]], "mode": "coro", "name": "N4", "plain": [], "recur_k": 0, "use_default": false}, {"attempts": null, "body": {"kind": "prov"}, "delay": null, "exceptions": null, "fails": [], "has_additional": false, "is_rec": true, "marks": [["a", {"cands": [4], "kind": "oneof"}]], "mode": "coro", "name": "N5", "plain": [], "recur_k": 1, "use_default": true}, {"attempts": null, "body": {"kind": "prov"}, "delay": null, "exceptions": null, "fails": [], "has_additional": false, "is_rec": false, "marks": [["a", {"dest": 5, "kind": "rec", "max": 3, "start": 2}]], "mode": "coro", "name": "N6", "plain": [], "recur_k": 0, "use_default": false}], "output": 6}'''),
    'P24b_oneof_in_rec_unneeded_candidate_runs': json.loads(r'''{"cb": {"ncomplete": {"1": 1, "6": 1}, "nstart": {"0": 1, "2": 1, "3": 1, "4": 1, "7": 1}, "pcomplete": 0, "pstart": 0, "save": {"0": 1, "1": 1, "4": 1}}, "input": 0, "input_kwargs": {"x": "w"}, "nodes": [{"attempts": null, "body": {"kind": "prov"}, "delay": null, "exceptions": null, "fails": [], "has_additional": false, "is_rec": false, "marks": [], "mode": "coro", "name": "N0", "plain": ["x"], "recur_k": 0, "use_default": false}, {"attempts": 3, "body": {"kind": "const", "v": null}, "delay": 1, "exceptions": ["E0", "E2"], "fails": [], "has_additional": false, "is_rec": false, "marks": [], "mode": "coro", "name": "N1", "plain": [], "recur_k": 0, "use_default": false}, {"attempts": null, "body": {"kind": "prov"}, "delay": null, "exceptions": ["E2"], "fails": [], "has_additional": false, "is_rec": false, "marks": [["a", {"kind": "input", "src": 1}]], "mode": "coro", "name": "N2", "plain": [], "recur_k": 0, "use_default": false}, {"attempts": null, "body": {"kind": "prov"}, "delay": null, "exceptions": null, "fails": [], "has_additional": true, "is_rec": false, "marks": [], "mode": "coro", "name": "N3", "plain": [], "recur_k": 0, "use_default": false}, {"attempts": null, "body": {"kind": "prov"}, "delay": null, "exceptions": null, "fails": [], "has_additional": false, "is_rec": false, "marks": [["a", {"cands": [3], "kind": "oneof"}]], "mode": "coro", "name": "N4", "plain": [], "recur_k": 0, "use_default": false}, {"attempts": null, "body": {"kind": "const", "v": 0}, "delay": null, "exceptions": null, "fails": [], "has_additional": false, "is_rec": false, "marks": [], "mode": "coro", "name": "N5", "plain": [], "recur_k": 0, "use_default": false}, {"attempts": null, "body": {"kind": "prov"}, "delay": null, "exceptions": null, "fails": [], "has_additional": false, "is_rec": true, "marks": [["a", {"kind": "input", "src": 5}], ["b", {"cands": [2, 4], "kind": "oneof"}]], "mode": "coro", "name": "N6", "plain": [], "recur_k": 1, "use_default": false}, {"attempts": null, "body": {"kind": "prov"}, "delay": null, "exceptions": null, "fails": [], "has_additional": false, "is_rec": false, "marks": [["a", {"dest": 6, "kind": "rec", "max": 2, "start": 3}]], "mode": "coro", "name": "N7", "plain": [], "recur_k": 0, "use_default": true}], "output": 7}'''),
    'P25_stale_recurrent_task_restarts_finished_subgraph': json.loads(r'''{"input": 0, "input_kwargs": {"x": "v"}, "nodes": [{"attempts": null, "body": {"kind": "prov"}, "delay": null, "exceptions": null, "fails": [], "has_additional": false, "is_rec": false, "marks": [], "mode": "coro", "name": "N0", "plain": ["x"], "recur_k": 0, "use_default": false}, {"attempts": null, "body": {"kind": "prov"}, "delay": null, "exceptions": null, "fails": [], "has_additional": true, "is_rec": true, "marks": [], "mode": "coro", "name": "N1", "plain": [], "recur_k": 2, "use_default": true}, {"attempts": null, "body": {"kind": "prov"}, "delay": null, "exceptions": null, "fails": [], "has_additional": false, "is_rec": false, "marks": [], "mode": "coro", "name": "N2", "plain": [], "recur_k": 0, "use_default": false}, {"attempts": null, "body": {"kind": "prov"}, "delay": null, "exceptions": null, "fails": [], "has_additional": false, "is_rec": false, "marks": [["a", {"dest": 1, "kind": "rec", "max": 1, "start": 1}]], "mode": "coro", "name": "N3", "plain": [], "recur_k": 0, "use_default": false}, {"attempts": null, "body": {"kind": "prov"}, "delay": null, "exceptions": null, "fails": [], "has_additional": false, "is_rec": false, "marks": [["a", {"kind": "input", "src": 3}], ["b", {"cands": [2], "kind": "oneof"}]], "mode": "coro", "name": "N4", "plain": [], "recur_k": 0, "use_default": true}, {"attempts": 1, "body": {"kind": "prov"}, "delay": 1, "exceptions": ["E2"], "fails": [[0, 1, "E1"], [0, 2, "E1"], [0, 3, "E1"]], "has_additional": false, "is_rec": false, "marks": [["a", {"cands": [4], "kind": "oneof"}], ["b", {"kind": "input", "src": 3}]], "mode": "coro", "name": "N5", "plain": [], "recur_k": 0, "use_default": false}, {"attempts": 3, "body": {"kind": "prov"}, "delay": 0, "exceptions": ["E0"], "fails": [], "has_additional": false, "is_rec": false, "marks": [["a", {"cands": [5], "kind": "oneof"}], ["b", {"kind": "input", "src": 3}], ["c", {"kind": "input", "src": 0}]], "mode": "coro", "name": "N6", "plain": [], "recur_k": 0, "use_default": false}, {"attempts": null, "body": {"kind": "prov"}, "delay": null, "exceptions": null, "fails": [[0, 1, "E1"]], "has_additional": false, "is_rec": false, "marks": [["a", {"cands": [6], "kind": "oneof"}]], "mode": "coro", "name": "N7", "plain": [], "recur_k": 0, "use_default": false}], "output": 7}'''),
    'P26_oneof_in_rec_in_candidate_fails_on_restart': json.loads(r'''{"input": 0, "input_kwargs": {"x": ""}, "nodes": [{"attempts": null, "body": {"kind": "prov"}, "delay": null, "exceptions": null, "fails": [], "has_additional": false, "is_rec": false, "marks": [], "mode": "coro", "name": "N0", "plain": ["x"], "recur_k": 0, "use_default": false}, {"attempts": null, "body": {"kind": "prov"}, "delay": null, "exceptions": null, "fail_hash": [2, 0, "E2"], "fails": [], "has_additional": true, "is_rec": false, "marks": [["a", {"kind": "input", "src": 0}]], "mode": "coro", "name": "N1", "plain": [], "recur_k": 0, "use_default": false}, {"attempts": null, "body": {"kind": "prov"}, "delay": null, "exceptions": null, "fails": [], "has_additional": false, "is_rec": true, "marks": [["a", {"kind": "input", "src": 0}], ["b", {"cands": [1], "kind": "oneof"}]], "mode": "coro", "name": "N2", "plain": [], "recur_k": 3, "use_default": false}, {"attempts": null, "body": {"kind": "prov"}, "delay": null, "exceptions": null, "fails": [], "has_additional": true, "is_rec": false, "marks": [["a", {"dest": 2, "kind": "rec", "max": 3, "start": 1}], ["b", {"kind": "input", "src": 0}]], "mode": "coro", "name": "N3", "plain": [], "recur_k": 0, "use_default": true}, {"attempts": null, "body": {"kind": "const", "v": ""}, "delay": 0, "exceptions": ["E1"], "fails": [], "has_additional": false, "is_rec": true, "marks": [["a", {"kind": "input", "src": 3}]], "mode": "coro", "name": "N4", "plain": [], "recur_k": 4, "use_default": false}, {"attempts": null, "body": {"kind": "const", "v": 0}, "delay": null, "exceptions": null, "fails": [], "has_additional": false, "is_rec": false, "marks": [["a", {"dest": 4, "kind": "rec", "max": 3, "start": 3}], ["b", {"kind": "input", "src": 0}]], "mode": "coro", "name": "N5", "plain": [], "recur_k": 0, "use_default": false}, {"attempts": 2, "body": {"kind": "prov"}, "delay": null, "exceptions": ["E0", "E2"], "fails": [], "has_additional": false, "is_rec": false, "marks": [["a", {"cands": [5], "kind": "oneof"}], ["b", {"kind": "input", "src": 0}]], "mode": "coro", "name": "N6", "plain": [], "recur_k": 0, "use_default": false}], "output": 6}'''),
}


# ------------------------------------------------------------------------------------------------ interaction motifs
def sw(dec, cases, name='sw0'):
    return {'kind': 'switch', 'decider': dec, 'cases': [[l, c] for l, c in cases], 'name': name}


def one(*cands):
    return {'kind': 'oneof', 'cands': list(cands)}


def rec(start, dest, mx):
    return {'kind': 'rec', 'start': start, 'dest': dest, 'max': mx}


LAB = {'kind': 'label', 'v': 'l0'}
MOTIFS = {
    # a switch case that another, deeper node also reads (who wakes the switch's consumer when the case finishes late?)
    'M1_case_shared_with_deeper_consumer': spec([
        node(0), node(1, body=LAB), node(2), node(3, [('a', sw(1, [('l0', 2)]))]), node(4, [('a', inp(2))]),
        node(5, [('a', inp(3)), ('b', inp(4))])]),
    'M1c_case_shared_with_much_deeper_consumer': spec([
        node(0), node(1, body=LAB), node(2), node(3, [('a', sw(1, [('l0', 2)]))]), node(4), node(5, [('a', inp(4))]),
        node(6, [('a', inp(5))]), node(7, [('a', inp(2)), ('b', inp(6))]), node(8, [('a', inp(3)), ('b', inp(7))])]),
    'M1b_two_cases_one_shared': spec([
        node(0), node(1, body=LAB), node(2), node(3), node(4, [('a', sw(1, [('l0', 2), ('l1', 3)]))]),
        node(5, [('a', inp(2)), ('b', inp(3))]), node(6, [('a', inp(4)), ('b', inp(5))])]),
    # the decision node is read by somebody else too
    'M2_decider_shared': spec([
        node(0), node(1, body=LAB), node(2, [('a', inp(1))]), node(3), node(4, [('a', sw(1, [('l0', 3)]))]),
        node(5, [('a', inp(2)), ('b', inp(4))])]),
    # an ancestor of a one-of candidate that the main pipeline needs as well
    'M3_candidate_ancestor_shared': spec([
        node(0), node(1), node(2, [('a', inp(1))]), node(3, [('a', inp(2))]), node(4, [('a', inp(0))]),
        node(5, [('a', one(3, 4))]), node(6, [('a', inp(2)), ('b', inp(5))])]),
    # a recurrent subgraph inside a one-of candidate
    'M4_rec_inside_candidate': spec([
        node(0), node(1, has_additional=True), node(2, [('a', inp(1))]),
        node(3, [('a', inp(2))], is_rec=True, recur_k=1), node(4, [('a', rec(1, 3, 2))]), node(5),
        node(6, [('a', one(4, 5))])]),
    # a switch inside a one-of candidate
    'M5_switch_inside_candidate': spec([
        node(0), node(1, body=LAB), node(2), node(3, [('a', sw(1, [('l0', 2)]))]), node(4),
        node(5, [('a', one(3, 4))])]),
    # … whose label matches no case: the candidate fails, the fallback is used (repo fix 23ee3cd)
    'M5b_switch_inside_candidate_no_case': spec([
        node(0), node(1, body={'kind': 'label', 'v': 'unknown'}), node(2), node(3, [('a', sw(1, [('l0', 2)]))]), node(4),
        node(5, [('a', one(3, 4))])]),
    # … in the second candidate, below an intermediate node, the case node shared with the output
    'M5c_switch_below_second_candidate': spec([
        node(0), node(1, body=LAB), node(2), node(3, [('a', sw(1, [('l0', 2)]))]), node(4, [('a', inp(3))]),
        node(5, fails=FAIL), node(6, [('a', one(5, 4)), ('b', inp(2))])]),
    'M5d_switch_below_second_candidate_no_case': spec([
        node(0), node(1, body={'kind': 'label', 'v': 'unknown'}), node(2), node(3, [('a', sw(1, [('l0', 2)]))]),
        node(4, [('a', inp(3))]), node(5, fails=FAIL), node(6, [('a', one(5, 4)), ('b', inp(1))])]),
    # a diamond inside a recurrent subgraph: in the second iteration one input of the join is new while the other is
    # still being recomputed
    'M20_rec_diamond': spec([
        node(0), node(1, has_additional=True), node(2, [('a', inp(1))]), node(3, [('a', inp(1))]),
        node(4, [('a', inp(2)), ('b', inp(3))], is_rec=True, recur_k=1), node(5, [('a', rec(1, 4, 2))])]),
    'M20b_rec_diamond_deeper': spec([
        node(0), node(1, has_additional=True), node(2, [('a', inp(1))]), node(3, [('a', inp(1))]), node(4, [('a', inp(3))]),
        node(5, [('a', inp(2)), ('b', inp(4))]), node(6, [('a', inp(5))], is_rec=True, recur_k=2),
        node(7, [('a', rec(1, 6, 3))])]),
    # the losing candidate and the next one share an ancestor P whose own dependency N is still running when the first
    # candidate is found to have lost (N's only consumer is P)
    'M21_candidates_share_ancestor_with_running_dependency': spec([
        node(0), node(1, fails=FAIL), node(2), node(3, [('a', inp(2))]), node(4, [('a', inp(1)), ('b', inp(3))]),
        node(5, [('a', inp(3))]), node(6, [('a', one(4, 5))])]),
    # the consumer of a one-of is needed again by a switch case that is resolved late: the reduced DAG of that case is
    # computed after the one-of has started (its untried candidates must not be part of it)
    'M22_oneof_consumer_needed_by_late_switch_case': spec([
        node(0), node(1), node(2), node(3, [('a', one(1, 2))]), node(4, body=LAB), node(5, [('a', inp(3))]),
        node(6, [('a', inp(3)), ('b', sw(4, [('l0', 5)]))])]),
    'M22b_oneof_consumer_needed_by_late_nested_oneof': spec([
        node(0), node(1), node(2), node(3, [('a', one(1, 2))]), node(4, fails=FAIL), node(5, [('a', inp(3))]), node(6),
        node(7, [('a', one(5, 6))]), node(8, [('a', one(4, 7)), ('b', inp(3))])]),
    # a switch with a falsy label (a boolean switch), selected / not selected; the falsy case is shared with the output
    'M23_falsy_label_selected': spec([
        node(0), node(1, body={'kind': 'label', 'v': ''}), node(2), node(3), node(4, [('a', sw(1, [('', 2), ('l1', 3)]))]),
        node(5, [('a', inp(4)), ('b', inp(2))])]),
    'M23b_falsy_label_not_selected': spec([
        node(0), node(1, body={'kind': 'label', 'v': 'l1'}), node(2), node(3), node(4, [('a', sw(1, [('', 2), ('l1', 3)]))])]),
    # candidate 1 fails on a node J that the selected case of a switch in candidate 2 depends on as well: the case sub-DAG
    # contains the error before it starts
    'M24_case_depends_on_node_that_failed_the_previous_candidate': spec([
        node(0), node(1, body=LAB), node(2, fails=FAIL), node(3, [('a', inp(2))]), node(4, [('a', inp(2))]),
        node(5, [('a', sw(1, [('l0', 3)]))]), node(6), node(7, [('a', one(4, 5, 6))])]),
    # a recurrent subgraph with a side branch inside the first candidate gives up in the second iteration; the side branch
    # is an ancestor of the next candidate
    'M25_rec_in_candidate_side_branch_needed_by_next_candidate': spec([
        node(0), node(1, has_additional=True), node(2, [('a', inp(1))], fails=[[1, 1, 'E0']]), node(3, [('a', inp(2))]),
        node(4, [('a', inp(1))]), node(5, [('a', inp(4))]),
        node(6, [('a', inp(3)), ('b', inp(5))], is_rec=True, recur_k=1), node(7, [('a', rec(1, 6, 2))]),
        node(8, [('a', inp(5))]), node(9, [('a', one(7, 8))])]),
    # a recurrent subgraph with a switch inside, inside a one-of candidate; the label matches no case in the second iteration
    'M26_switch_in_rec_in_candidate_label_becomes_unknown': spec([
        node(0), node(1, has_additional=True), node(2, [('a', inp(1))], body={'kind': 'labels', 'v': ['l0', 'unknown']}),
        node(3), node(4, [('a', sw(2, [('l0', 3)]))]),
        node(5, [('a', inp(4))], is_rec=True, recur_k=1), node(6, [('a', rec(1, 5, 2))]), node(7),
        node(8, [('a', one(6, 7))])]),
    # a recurrent destination with a consumer next to another branch
    'M6_rec_then_join': spec([
        node(0), node(1, has_additional=True), node(2, [('a', inp(1))], is_rec=True, recur_k=2),
        node(3, [('a', rec(1, 2, 3))]), node(4, [('a', inp(0))]), node(5, [('a', inp(3)), ('b', inp(4))])]),
    # one-of nested in the second candidate of another one-of
    'M7_nested_oneof': spec([
        node(0), node(1), node(2), node(3), node(4, [('a', one(2, 3))]), node(5, [('a', one(1, 4))])]),
    # one-of whose result feeds a switch decision
    'M8_oneof_decides_switch': spec([
        node(0), node(1, body=LAB), node(2, body=LAB), node(3, [('a', one(1, 2))], body=LAB), node(4), node(5),
        node(6, [('a', sw(3, [('l0', 4), ('l1', 5)]))])]),
    # a switch inside a recurrent subgraph whose decision changes in the second iteration
    'M11_switch_in_rec_label_changes': spec([
        node(0), node(1, has_additional=True), node(2, [('a', inp(1))], body={'kind': 'labels', 'v': ['l0', 'l1']}),
        node(3), node(4), node(5, [('a', sw(2, [('l0', 3), ('l1', 4)]))]),
        node(6, [('a', inp(5))], is_rec=True, recur_k=1), node(7, [('a', rec(1, 6, 2))])]),
    'M11b_switch_in_rec_label_becomes_unknown': spec([
        node(0), node(1, has_additional=True), node(2, [('a', inp(1))], body={'kind': 'labels', 'v': ['l0', 'unknown']}),
        node(3), node(5 - 1, [('a', sw(2, [('l0', 3)]))]),
        node(5, [('a', inp(4))], is_rec=True, recur_k=1), node(6, [('a', rec(1, 5, 2))])]),
    # a node outside a recurrent subgraph reads its start node (re-executed while the reader is between attempts)
    'M12_outside_reader_of_rec_start': spec([
        node(0), node(1, has_additional=True), node(2, [('a', inp(1))], is_rec=True, recur_k=1),
        node(3, [('a', rec(1, 2, 2))]), node(4, [('a', inp(1))]), node(5, [('a', inp(3)), ('b', inp(4))])]),
    # a one-of that is evaluated late (inside a switch case) whose candidate consumes the result of another one-of that
    # was evaluated earlier and had a losing candidate (cross-one-of contamination)
    'M13_oneof_after_losing_candidate': spec([
        node(0), node(1, fails=FAIL), node(2), node(3, [('a', one(1, 2))]), node(4, [('a', inp(3))]), node(5),
        node(6, [('a', inp(3))], body=LAB), node(7, [('a', one(4, 5))]),
        node(8, [('a', sw(6, [('l0', 7)])), ('b', inp(3))])]),
    # both candidates consume the other one-of; the first fails on its own, the second is tried after the losing
    # candidate of the other one-of has been opened
    'M14_second_candidate_after_losing_candidate': spec([
        node(0), node(1, fails=FAIL), node(2), node(3, [('a', one(1, 2))]), node(4, fails=FAIL),
        node(5, [('a', inp(3)), ('b', inp(4))]), node(6, [('a', inp(3))]), node(7, [('a', one(5, 6))])]),
    # the losing candidate fails because of a private ancestor
    'M15_losing_candidate_private_ancestor': spec([
        node(0), node(1, fails=FAIL), node(2, [('a', inp(1))]), node(3), node(4, [('a', one(2, 3))]), node(5, fails=FAIL),
        node(6, [('a', inp(4)), ('b', inp(5))]), node(7, [('a', inp(4))]), node(8, [('a', one(6, 7))])]),
    # two unnamed switches over one decision node, with different case tables (one consumer each)
    'M16_two_unnamed_switches_one_decider': spec([
        node(0), node(1, body=LAB), node(2), node(3), node(4), node(5),
        node(6, [('a', sw(1, [('l0', 2), ('l1', 3)], name=None))]),
        node(7, [('a', sw(1, [('l0', 4), ('l1', 5)], name=None))]),
        node(8, [('a', inp(6)), ('b', inp(7))])]),
    # wide layer (sibling concurrency) with retries
    'M9_wide_layer': spec([node(0)] + [node(i, [('a', inp(0))]) for i in range(1, 7)] +
                          [node(7, [('abcdef'[i - 1], inp(i)) for i in range(1, 7)])]),
    # a chain below a switch consumer
    'M10_switch_then_chain': spec([
        node(0), node(1, body=LAB), node(2), node(3), node(4, [('a', sw(1, [('l0', 2), ('l1', 3)]))]),
        node(5, [('a', inp(4))]), node(6, [('a', inp(5)), ('b', inp(0))])]),
}


# a flaky node inside a recurrent subgraph: it fails its first attempt in every iteration and succeeds on the second
MOTIFS['M28_flaky_node_inside_recurrent_subgraph'] = spec([
    node(0), node(1, has_additional=True),
    node(2, [('a', inp(1))], attempts=3, delay=1, fails=[[0, 1, 'E1'], [1, 1, 'E1'], [2, 1, 'E1']]),
    node(3, [('a', inp(2))], is_rec=True, recur_k=2), node(4, [('a', rec(1, 3, 3))])])


# one recurrent subgraph used in two roles, chosen by the input of the run: directly (a failure on the restart fails the run)
# and as a one-of candidate (the failure is contained, the fallback is used)
MOTIFS['M29_recurrent_subgraph_in_two_roles_by_input'] = spec([
    node(0), node(1, [('a', inp(0))], body={'kind': 'labelhash', 'v': ['l0', 'l1']}),
    node(2, [('a', inp(0))], has_additional=True, fails=[[1, 1, 'E0']]),
    node(3, [('a', inp(2))], is_rec=True, recur_k=1), node(4, [('a', rec(2, 3, 2))]), node(5),
    node(6, [('a', one(4, 5))]), node(7, [('a', sw(1, [('l0', 4), ('l1', 6)]))])])
# one node in two roles, chosen by the input: a switch case (its failure fails the run) and a one-of candidate (contained)
MOTIFS['M29b_node_as_case_and_as_candidate_by_input'] = spec([
    node(0), node(1, [('a', inp(0))], body={'kind': 'labelhash', 'v': ['l0', 'l1']}),
    node(2, [('a', inp(0))], fails=FAIL), node(3), node(4, [('a', one(2, 3))]),
    node(5, [('a', sw(1, [('l0', 2), ('l1', 4)]))])])


# switches and one-ofs inside a recurrent subgraph (repo fix: a restart forgets the decisions and runs the subgraph lazily)
_LABS = {'kind': 'labels', 'v': ['l0', 'l1']}


def _sw_in_rec(inside, **case_kw):
    dep = [('a', inp(1))] if inside else []
    return spec([
        node(0), node(1, [('a', inp(0))], has_additional=True), node(2, [('a', inp(1))], body=_LABS),
        node(3, dep, **case_kw.get('c0', {})), node(4, dep, **case_kw.get('c1', {})),
        node(5, [('a', sw(2, [('l0', 3), ('l1', 4)]))]), node(6, [('a', inp(5))], is_rec=True, recur_k=1),
        node(7, [('a', rec(1, 6, 2))])])


def _one_in_rec(**kw):
    return spec([
        node(0), node(1, [('a', inp(0))], has_additional=True), node(2, [('a', inp(1))], **kw.get('c0', {})),
        node(3, [('a', inp(1))], **kw.get('c1', {})), node(4, [('a', one(2, 3))]),
        node(5, [('a', inp(4))], is_rec=True, recur_k=1), node(6, [('a', rec(1, 5, 2))])])


MOTIFS['M30_switch_in_rec_decision_changes_cases_outside'] = _sw_in_rec(False)
MOTIFS['M30b_switch_in_rec_new_case_fails'] = _sw_in_rec(False, c1={'fails': FAIL})
MOTIFS['M31_switch_in_rec_cases_inside'] = _sw_in_rec(True)
MOTIFS['M31b_switch_in_rec_old_case_would_fail_on_restart'] = _sw_in_rec(True, c0={'fails': [[1, 1, 'E0']]})
MOTIFS['M31c_switch_in_rec_new_case_fails_on_restart'] = _sw_in_rec(True, c1={'fails': [[0, 1, 'E0']]})
MOTIFS['M32_oneof_in_rec'] = _one_in_rec()
MOTIFS['M32b_oneof_in_rec_first_fails_on_restart'] = _one_in_rec(c0={'fails': [[1, 1, 'E0']]})
MOTIFS['M32c_oneof_in_rec_first_fails_before_restart'] = _one_in_rec(c0={'fails': FAIL})
MOTIFS['M32d_oneof_in_rec_fallback_would_fail_on_restart'] = _one_in_rec(c1={'fails': [[0, 1, 'E1'], [1, 1, 'E1']]})
MOTIFS['M32e_oneof_in_rec_all_fail_on_restart'] = _one_in_rec(c0={'fails': [[1, 1, 'E0']]}, c1={'fails': [[0, 1, 'E1']]})
# the only way from the start node to the destination leads through a case edge / a candidate edge
MOTIFS['M33_rec_scope_through_case_edge'] = spec([
    node(0), node(1, [('a', inp(0))], has_additional=True), node(2, body=LAB), node(3, [('a', inp(1))]),
    node(4, [('a', sw(2, [('l0', 3)]))]), node(5, [('a', inp(4))], is_rec=True, recur_k=1), node(6, [('a', rec(1, 5, 2))])])
MOTIFS['M33b_rec_scope_through_candidate_edge'] = spec([
    node(0), node(1, [('a', inp(0))], has_additional=True), node(2, [('a', inp(1))]), node(3),
    node(4, [('a', one(2, 3))]), node(5, [('a', inp(4))], is_rec=True, recur_k=1), node(6, [('a', rec(1, 5, 2))])])
MOTIFS['M33c_rec_scope_through_candidate_edge_first_fails_on_restart'] = spec([
    node(0), node(1, [('a', inp(0))], has_additional=True), node(2, [('a', inp(1))], fails=[[1, 1, 'E0']]), node(3),
    node(4, [('a', one(2, 3))]), node(5, [('a', inp(4))], is_rec=True, recur_k=1), node(6, [('a', rec(1, 5, 2))])])

# a reader outside a recurrent subgraph of a node that no iteration needs again (deadlock between 12d4978 and 35c5865)
MOTIFS['M34_outside_reader_of_unneeded_scope_node'] = spec([
    node(0), node(1, [('a', inp(0))], has_additional=True), node(2, [('a', inp(1))]), node(3, [('a', inp(2))]), node(4),
    node(5, [('a', one(4, 3))], is_rec=True, recur_k=1), node(6, [('a', rec(1, 5, 2)), ('b', inp(2))])])
MOTIFS['M34b_outside_reader_of_unneeded_case_ancestor'] = spec([
    node(0), node(1, [('a', inp(0))], has_additional=True), node(2, [('a', inp(1))]), node(3, [('a', inp(2))]), node(4),
    node(5, body=LAB), node(6, [('a', sw(5, [('l0', 4), ('l1', 3)]))], is_rec=True, recur_k=1),
    node(7, [('a', rec(1, 6, 2)), ('b', inp(2))])])

# the same case / the same candidate is selected again after a restart and lies inside the subgraph: it has to be executed
# again (lazily: hidden when the switch / the one-of starts its sub-DAG), with the start node's new data
MOTIFS['M31d_switch_in_rec_same_case_inside_again'] = spec([
    node(0), node(1, [('a', inp(0))], has_additional=True), node(2, [('a', inp(1))], body=LAB),
    node(3, [('a', inp(1))]), node(4, [('a', inp(1))]),
    node(5, [('a', sw(2, [('l0', 3), ('l1', 4)]))]), node(6, [('a', inp(5))], is_rec=True, recur_k=2),
    node(7, [('a', rec(1, 6, 3))])])
MOTIFS['M32f_oneof_in_rec_same_candidate_inside_again'] = spec([
    node(0), node(1, [('a', inp(0))], has_additional=True), node(2, [('a', inp(1))]),
    node(3, [('a', inp(1))]), node(4, [('a', one(2, 3))]),
    node(5, [('a', inp(4))], is_rec=True, recur_k=2), node(6, [('a', rec(1, 5, 3))])])

# a successful run that ends while a node is still in flight: the first candidate fails in one dependency while a sibling
# dependency of the same candidate is in the middle of its body; the fallback candidate succeeds
MOTIFS['M35_run_succeeds_with_a_node_in_flight'] = spec([
    node(0), node(1, fails=FAIL), node(2), node(3, [('a', inp(1)), ('b', inp(2))]), node(4),
    node(5, [('a', one(3, 4))])])
MOTIFS['M35b_run_succeeds_with_a_retrying_node_in_flight'] = spec([
    node(0), node(1, fails=FAIL), node(2, attempts=3, delay=5, fails=[[0, 1, 'E1'], [0, 2, 'E1']]),
    node(3, [('a', inp(1)), ('b', inp(2))]), node(4), node(5, [('a', one(3, 4))])])

# a case node that is a node of the iteration DAG too (another node of the subgraph reads it): nothing orders it before its
# switch there, so the switch must not wait for it (deadlock between 12d4978 and 4bfc65e when the order put the switch first)
MOTIFS['M36_case_node_inside_iteration_dag'] = spec([
    node(0), node(1, [('a', inp(0))], has_additional=True), node(2, [('a', inp(1))]), node(3), node(4, body=LAB),
    node(5, [('a', sw(4, [('l0', 2), ('l1', 3)])), ('b', inp(2))], is_rec=True, recur_k=1),
    node(6, [('a', rec(1, 5, 2))])])
MOTIFS['M36b_case_node_inside_iteration_dag_decider_inside'] = spec([
    node(0), node(1, [('a', inp(0))], has_additional=True), node(2, [('a', inp(1))]), node(3),
    node(4, [('a', inp(1))], body=LAB),
    node(5, [('a', sw(4, [('l0', 2), ('l1', 3)])), ('b', inp(2))], is_rec=True, recur_k=1),
    node(6, [('a', rec(1, 5, 2))])])

# a node started for the first candidate, still running when a sibling of it fails, that the next candidate needs too
# (the losing candidate must not stop what it has started; P16 with the shared node started by the loser itself)
MOTIFS['M38_loser_started_a_node_the_next_candidate_needs'] = spec([
    node(0), node(1, [('a', inp(0))]), node(2, [('a', inp(0))], fails=FAIL), node(3, [('a', inp(2))]),
    node(4, [('a', inp(1)), ('b', inp(3))]), node(5, [('a', inp(1))]), node(6, [('a', one(4, 5))])])
# two unnamed switches with one decision node and the same labels, but different cases
MOTIFS['M37_two_unnamed_switches_same_decider_same_labels'] = spec([
    node(0), node(1, body=LAB), node(2), node(3), node(4), node(5),
    node(6, [('a', sw(1, [('l0', 2), ('l1', 3)], name=None))]), node(7, [('a', sw(1, [('l0', 4), ('l1', 5)], name=None))]),
    node(8, [('a', inp(6)), ('b', inp(7))])])

# nested recurrent subgraphs: the inner one (2 → 3) lies inside the outer one (1 → 4); when the outer one restarts, the
# inner start node has to wait for the outer start node again
MOTIFS['M39_nested_recurrent_subgraphs'] = spec([
    node(0), node(1, [('a', inp(0))], has_additional=True), node(2, [('a', inp(1))], has_additional=True),
    node(3, [('a', inp(2))], is_rec=True, recur_k=1), node(4, [('a', rec(2, 3, 2))], is_rec=True, recur_k=1),
    node(5, [('a', rec(1, 4, 2))])])
MOTIFS['M39b_nested_recurrent_subgraphs_outer_only_input'] = spec([
    node(0), node(1, [('a', inp(0))], has_additional=True), node(2, [('a', inp(1))]),
    node(3, [('a', inp(1))], has_additional=True), node(4, [('a', inp(3)), ('b', inp(2))], is_rec=True, recur_k=1),
    node(5, [('a', rec(3, 4, 2))], is_rec=True, recur_k=1), node(6, [('a', rec(1, 5, 2))])])

# the input node itself is the start node of a recurrent subgraph: on a restart it gets the caller's kwargs plus
# additional_data — in a dict of its own, not in the caller's
MOTIFS['M40_input_node_restarts_the_subgraph'] = spec([
    node(0, has_additional=True), node(1, [('a', inp(0))], is_rec=True, recur_k=1), node(2, [('a', rec(0, 1, 2))])])
MOTIFS['M40b_input_node_restarts_the_subgraph_default'] = spec([
    node(0, has_additional=True), node(1, [('a', inp(0))]),
    node(2, [('a', inp(1))], is_rec=True, recur_k=3, use_default=True), node(3, [('a', rec(0, 2, 2)), ('b', inp(1))])])

# two recurrent subgraphs in one pipeline: the restart of one must not disturb what the restart of the other has marked as
# out of date and not hidden yet (the case of a switch / a candidate that is re-run only when its switch / one-of is resolved
# again).  Siblings, and nested with the decision depending on the inner destination.
MOTIFS['M41_sibling_subgraphs_switch_in_one'] = spec([
    node(0), node(1, [('a', inp(0))], has_additional=True), node(2, [('a', inp(1))], body=LAB),
    node(3, [('a', inp(1))]), node(4, [('a', inp(1))]),
    node(5, [('a', sw(2, [('l0', 3), ('l1', 4)]))]), node(6, [('a', inp(5))], is_rec=True, recur_k=1),
    node(7, [('a', inp(0))], has_additional=True), node(8, [('a', inp(7))], is_rec=True, recur_k=1),
    node(9, [('a', rec(1, 6, 2)), ('b', rec(7, 8, 2))])])
MOTIFS['M41b_sibling_subgraphs_oneof_in_one'] = spec([
    node(0), node(1, [('a', inp(0))], has_additional=True), node(2, [('a', inp(1))]),
    node(3, [('a', one(2))]), node(4, [('a', inp(3))], is_rec=True, recur_k=1),
    node(5, [('a', inp(0))], has_additional=True), node(6, [('a', inp(5))], is_rec=True, recur_k=2),
    node(7, [('a', rec(1, 4, 2)), ('b', rec(5, 6, 3))])])
MOTIFS['M41c_nested_subgraphs_decision_reads_inner_destination'] = spec([
    node(0), node(1, [('a', inp(0))], has_additional=True),
    node(2, [('a', inp(1))], has_additional=True), node(3, [('a', inp(2))], is_rec=True, recur_k=1),
    node(4, [('a', rec(2, 3, 2))], body=LAB), node(5, [('a', inp(1))]), node(6, [('a', inp(1))]),
    node(7, [('a', sw(4, [('l0', 5), ('l1', 6)]))], is_rec=True, recur_k=1),
    node(8, [('a', rec(1, 7, 2))])])


def _with_cb(sp, cb):
    sp = dict(sp)
    sp['cb'] = cb
    return sp


# a join of two siblings while a collaborator of one of them is suspended (event manager in on_node_complete / on_node_start,
# artifact store in save): the other sibling completes in between
_JOIN = spec([node(0), node(1, [('a', inp(0))]), node(2, [('a', inp(0))]), node(3, [('a', inp(1)), ('b', inp(2))])])
MOTIFS['M27_join_while_on_node_complete_is_suspended'] = _with_cb(_JOIN, {'ncomplete': {'1': 3}})
MOTIFS['M27b_join_while_save_is_suspended'] = _with_cb(_JOIN, {'save': {'1': 3}})
MOTIFS['M27c_join_while_on_node_start_is_suspended'] = _with_cb(_JOIN, {'nstart': {'1': 2}, 'ncomplete': {'2': 1}})
MOTIFS['M27d_output_save_is_suspended'] = _with_cb(_JOIN, {'save': {'3': 2, '1': 1}, 'pcomplete': 1})


def wide_spec(w, modes=('coro',)):
    """one layer of `w` independent siblings of equal depth, collected eight at a time (C06: no cap on how many nodes
    of one depth are in flight together)"""
    nodes = [node(0)] + [node(i, [('a', inp(0))], mode=modes[i % len(modes)]) for i in range(1, w + 1)]
    coll = []
    for j in range(0, w, 8):
        grp = list(range(1 + j, 1 + min(j + 8, w)))
        coll.append(len(nodes))
        nodes.append(node(len(nodes), [('abcdefgh'[k], inp(g)) for k, g in enumerate(grp)]))
    nodes.append(node(len(nodes), [('abcdefgh'[k], inp(c)) for k, c in enumerate(coll[:8])]))
    return spec(nodes)


def motif_specs():
    """every motif: as is, with each non-input node failing for good, with each node retried once, with a falsy value"""
    import copy
    out = {}
    for name, sp in MOTIFS.items():
        out[name] = sp
        for i in range(1, len(sp['nodes'])):
            v = copy.deepcopy(sp)
            v['nodes'][i]['fails'] = [[0, 1, 'E0']]
            out[f'{name}/fail{i}'] = v
            v = copy.deepcopy(sp)
            v['nodes'][i]['fails'] = [[0, 1, 'E1']]
            v['nodes'][i]['attempts'] = 2
            v['nodes'][i]['delay'] = 1
            out[f'{name}/retry{i}'] = v
            if sp['nodes'][i]['body']['kind'] == 'prov':
                v = copy.deepcopy(sp)
                v['nodes'][i]['body'] = {'kind': 'const', 'v': None}
                out[f'{name}/none{i}'] = v
            if sp['nodes'][i].get('is_rec'):
                v = copy.deepcopy(sp)
                v['nodes'][i]['fails'] = [[1, 1, 'E0']]        # fails on the restart
                out[f'{name}/failrestart{i}'] = v
        for i in range(1, len(sp['nodes'])):
            # an intermediate node of a recurrent subgraph failing on the restart
            if any(m['kind'] == 'rec' for n in sp['nodes'] for _, m in n['marks']):
                v = copy.deepcopy(sp)
                v['nodes'][i]['fails'] = [[1, 1, 'E0']]
                out[f'{name}/failsecond{i}'] = v
    return out


if __name__ == '__main__':
    p = Path(__file__).resolve().parent.parent / 'corpus' / 'sched.json'
    p.write_text(json.dumps(CORPUS, indent=1) + '\n')
    print('wrote', p)

#!/bin/bash
# usage: confirm_mut.sh <worktree> <mutdir> — confirm: demo passes unchanged, fails patched, suite passes patched
WT="$1"; M="$2"
cd "$WT" || exit 2
git checkout -q -- . && git clean -fdq
PYTHONPATH="$WT" timeout 600 /venv/bin/python "$M/demo.py" >/dev/null 2>&1; A=$?
git apply "$M/patch.diff" || { echo "apply failed"; exit 2; }
PYTHONPATH="$WT" timeout 600 /venv/bin/python "$M/demo.py" >/dev/null 2>&1; B=$?
T=$(timeout 1200 /venv/bin/python -m pytest -q -p no:cacheprovider --timeout=900 --deselect tests/visualization 2>&1 | tail -1)
git checkout -q -- . && git clean -fdq
echo "demo_unchanged_exit=$A demo_patched_exit=$B tests_patched: $T"

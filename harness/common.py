"""Shared plumbing for the checks: seeds, Lean build + axiom audit, driver invocation,
evidence files, VIOLATION / KNOWN-FINDING reporting."""
import hashlib
import json
import os
import re
import subprocess
import sys
import time
from pathlib import Path

VERIF = Path(__file__).resolve().parent.parent
REPO = Path(os.environ.get('MLPE_REPO', '/repo'))
LEAN = VERIF / 'lean'
DRIVER = LEAN / '.lake' / 'build' / 'bin' / 'driver'
EVID = VERIF / 'evidence'
REPLAYS = VERIF / 'replays'
PY = '/venv/bin/python'

ALLOWED_AXIOMS = {'propext', 'Classical.choice', 'Quot.sound'}
FORBIDDEN = re.compile(r'\b(sorry|admit|native_decide|bv_decide|implemented_by|unsafe)\b|^\s*axiom\s|maxHeartbeats\s+0')

EXIT_OK, EXIT_VIOLATION, EXIT_TOOL = 0, 1, 2


def seed() -> int:
    try:
        return int(os.environ.get('VERIF_SEED', '0'))
    except ValueError:
        return 0


def tier(argv_tier=None) -> str:
    t = argv_tier or os.environ.get('VERIF_TIER') or 'quick'
    return 'thorough' if t.startswith('t') else 'quick'


class ToolFailure(Exception):
    pass


def sh(cmd, cwd=None, timeout=3600, input=None, env=None):
    p = subprocess.run(cmd, cwd=cwd, input=input, capture_output=True, text=True, timeout=timeout, env=env)
    return p.returncode, p.stdout, p.stderr


_built = False


def ensure_built():
    """(re)build the Lean library and the native driver; no-op when cached."""
    global _built
    if _built:
        return
    rc, out, err = sh(['lake', 'build'], cwd=LEAN, timeout=3000)
    if rc != 0 or not DRIVER.exists():
        raise ToolFailure('lake build failed:\n' + out[-4000:] + err[-2000:])
    _built = True


def strip_comments(src: str) -> str:
    # remove /- ... -/ (nested not handled beyond one level, fine for our files) and -- comments
    out = []
    i, depth, n = 0, 0, len(src)
    while i < n:
        if src.startswith('/-', i):
            depth += 1; i += 2; continue
        if depth and src.startswith('-/', i):
            depth -= 1; i += 2; continue
        if depth:
            if src[i] == '\n':
                out.append('\n')
            i += 1; continue
        if src.startswith('--', i):
            while i < n and src[i] != '\n':
                i += 1
            continue
        out.append(src[i]); i += 1
    return ''.join(out)


def prop_theorems(prop_id: str):
    """names of the theorems declared in MLPE/Props/<id>.lean (namespace-qualified)."""
    f = LEAN / 'MLPE' / 'Props' / f'{prop_id}.lean'
    if not f.exists():
        return []
    src = strip_comments(f.read_text())
    ns, names = [], []
    for line in src.splitlines():
        m = re.match(r'\s*namespace\s+(\S+)', line)
        if m:
            ns.append(m.group(1)); continue
        m = re.match(r'\s*end\s+(\S+)', line)
        if m and ns and ns[-1] == m.group(1):
            ns.pop(); continue
        m = re.match(r'\s*(?:private\s+|protected\s+)?theorem\s+(\S+)', line)
        if m:
            names.append('.'.join(ns + [m.group(1)]))
    return names


def lean_sources():
    return sorted(p for p in (LEAN / 'MLPE').rglob('*.lean')) + [LEAN / 'Driver.lean']


def audit(prop_id: str) -> dict:
    """build, then `#print axioms` for every property theorem of <id>, and grep the sources."""
    ensure_built()
    thms = prop_theorems(prop_id)
    if not thms:
        raise ToolFailure(f'no property theorems found for {prop_id}')
    src = f'import MLPE.Props.{prop_id}\n' + ''.join(f'#print axioms {t}\n' for t in thms)
    tmp = LEAN / f'.audit_{prop_id}_{os.getpid()}.lean'
    tmp.write_text(src)
    try:
        rc, out, err = sh(['lake', 'env', 'lean', str(tmp)], cwd=LEAN, timeout=1200)
    finally:
        tmp.unlink(missing_ok=True)
    if rc != 0:
        raise ToolFailure('axiom audit failed to run:\n' + out[-3000:] + err[-2000:])
    res, bad = [], []
    # output: "'name' depends on axioms: [a, b]" or "'name' does not depend on any axioms"
    flat = re.sub(r'\s+', ' ', out)
    for t in thms:
        m = re.search(re.escape(f"'{t}'") + r" (does not depend on any axioms|depends on axioms: \[([^\]]*)\])", flat)
        if not m:
            bad.append((t, 'no-audit-output')); continue
        axs = [a.strip() for a in (m.group(2) or '').split(',') if a.strip()]
        res.append({'theorem': t, 'axioms': axs})
        if not set(axs) <= ALLOWED_AXIOMS:
            bad.append((t, axs))
    hits = []
    for f in lean_sources():
        for i, line in enumerate(strip_comments(f.read_text()).splitlines(), 1):
            if FORBIDDEN.search(line):
                hits.append(f'{f.relative_to(LEAN)}:{i}: {line.strip()[:80]}')
    if bad or hits:
        raise ToolFailure(f'proof audit failed: bad axioms {bad}, forbidden tokens {hits}')
    extra = {}
    if tier() == 'thorough':
        # the toolchain's independent re-checker of the compiled .olean of the property's theorem module (and,
        # transitively, of everything it imports)
        ok, msg = leanchecker([f'MLPE.Props.{prop_id}'])
        if not ok:
            raise ToolFailure('leanchecker rejected MLPE.Props.%s: %s' % (prop_id, msg))
        extra['leanchecker'] = f'accepted MLPE.Props.{prop_id}'
    return {
        **extra,
        'obligations': len(thms), 'discharged': len(res),
        'theorems': res,
        'checker_cmd': f'cd lean && lake build && lake env lean <(#print axioms of every theorem in MLPE/Props/{prop_id}.lean)',
    }


def leanchecker(mods):
    rc, out, err = sh(['lake', 'env', 'leanchecker'] + mods, cwd=LEAN, timeout=3000)
    return rc == 0, (out + err)[-1500:]


def run_driver(mode_args, lines, timeout=3000):
    ensure_built()
    rc, out, err = sh([str(DRIVER)] + list(mode_args), input='\n'.join(lines) + '\n', timeout=timeout)
    if rc != 0:
        raise ToolFailure(f'driver {mode_args} exited {rc}: {err[-2000:]}')
    return out.splitlines()


TRUSTED_BASE = [
    'Lean 4.33.0 kernel; axioms of property theorems audited ⊆ {propext, Classical.choice, Quot.sound}; no native_decide / bv_decide / sorry / own axioms',
    'hand-written Lean model of the code (see DESIGN.md §3) — tied to /repo only by the sampled correspondence check of this run',
    'Python harness: program/op generator, canonicalisation, stepping event loop, Lean driver JSON front end',
    'CPython 3.12 asyncio / networkx / pickle / json / pathlib behave as modelled (DESIGN.md §1.2, §7)',
]


def write_evidence(prop_id, tier_, level, coverage, wall_s, violations=0, assumptions=None):
    if os.environ.get('MLPE_NO_EVIDENCE'):
        return                      # an additional pass of the thorough tier under another hash seed (see ./check)
    EVID.mkdir(exist_ok=True)
    cov = dict(coverage)
    cov.setdefault('trusted_base', TRUSTED_BASE)
    # networkx iterates sets of node ids, so the launch orders it proposes depend on Python's string hashing: the hash seed
    # is fixed per run (derived from VERIF_SEED by ./check), recorded here and in every replay file
    cov['python_hash_seed'] = os.environ.get('PYTHONHASHSEED')
    if os.environ.get('MLPE_EXTRA_PASSES'):
        cov['additional_passes_under_other_hash_seeds'] = os.environ['MLPE_EXTRA_PASSES']
    doc = {
        'property_id': prop_id, 'tier': tier_, 'seed': seed(), 'level': level,
        'coverage': cov, 'wall_s': round(wall_s, 2), 'violations': violations,
        'assumptions': assumptions or [],
    }
    (EVID / f'{prop_id}.json').write_text(json.dumps(doc, indent=1, ensure_ascii=False, default=str) + '\n')


def save_replay(prop_id, obj) -> Path:
    REPLAYS.mkdir(exist_ok=True)
    if isinstance(obj, dict):
        obj = dict(obj, hashseed=os.environ.get('PYTHONHASHSEED'))
    blob = json.dumps(obj, indent=1, ensure_ascii=False, default=str, sort_keys=True)
    h = hashlib.sha1(blob.encode()).hexdigest()[:10]
    p = REPLAYS / f'{prop_id}-{h}.json'
    p.write_text(blob + '\n')
    return p


def report_violation(prop_id, replay_obj, no_input=False):
    p = save_replay(prop_id, replay_obj)
    tail = ' no-failing-input-found' if no_input else ''
    print(f'VIOLATION property={prop_id} replay={p}{tail}', flush=True)


def load_known_findings():
    f = VERIF / 'known_findings.json'
    if not f.exists():
        return {'findings': [], 'fixed': []}
    return json.loads(f.read_text())


def repo_fingerprint() -> str:
    h = hashlib.sha1()
    for sub in ('ml_pipeline_engine', 'ml_pipeline_viewer'):
        for p in sorted((REPO / sub).rglob('*.py')):
            h.update(str(p.relative_to(REPO)).encode()); h.update(p.read_bytes())
    return h.hexdigest()[:16]


class Timer:
    def __init__(self):
        self.t0 = time.time()

    def s(self):
        return time.time() - self.t0

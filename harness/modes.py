"""C17 — execution mode transparency and pool fail-fast.
(a) virtual executors: the same declarations under several assignments of {coroutine, inline, thread, process}
    modes, lock-stepped against the model, outcomes compared with each other and with `Sem`;
(b) pool registry states (thread pool missing / shut down; process pool missing / shut down / no manager):
    the run must end with an error result before any node body, lock-stepped against `poolsOk = false`;
(c) REAL thread and process pools on the default event loop with their real timing: outcome vs `Sem` only
    (differential testing, labelled as such: pickling, fork and GIL timing are outside any model here)."""
import asyncio
import copy
import json
import multiprocessing as mp
import random
import sys

from . import common as C
from . import sched

MODES = ('coro', 'inline', 'thread', 'process')


def worker(chunk):
    from . import engine_run as ER, fragment, lockstep, progen
    from ml_pipeline_engine.parallelism import process_pool_registry, threads_pool_registry
    sched._init_worker()
    out = []
    for kind, pseed, profile in chunk:
        rng = random.Random(pseed)
        spec = progen.gen_spec(rng, profile, 3, 7, cb_p=0.1, fail_p=0.2, modes=MODES)
        rec = {'kind': kind, 'pseed': pseed, 'profile': profile, 'viol': [], 'div': None, 'spec': spec, 'handles': 0}
        try:
            if kind == 'modes':
                variants = [spec]
                for _ in range(3):
                    v = copy.deepcopy(spec)
                    for n in v['nodes']:
                        n['mode'] = rng.choice(MODES)
                    variants.append(v)
                traces = [ER.run_program(v, ER.Policy(random.Random(rng.randrange(1 << 30)), early_p=rng.choice([0, 0.3])))
                          for v in variants]
                divs = lockstep.lockstep_many(traces)
                rec['handles'] = sum(t['handles'] for t in traces)
                rec['assignments'] = [''.join(n['mode'][0] for n in v['nodes']) for v in variants]
                infrag, _ = fragment.in_fragment(traces[0]['graph'])
                for v, t in zip(variants, traces):
                    if any(o[0] == 'reused-instance' for e in t['events'] for o in e.get('obs', [])) and not rec['viol']:
                        # in the process pool the body works on a pickled copy of the node object, in the other modes on
                        # the object itself: a reused object makes state kept on `self` visible in some modes only
                        rec['viol'].append('a node object of an earlier invocation is reused for a later one (retry, '
                                           're-iteration): state kept on self survives in coroutine / inline / thread '
                                           'mode but not in process mode, so the outcome depends on the execution mode')
                        rec['spec'] = v
                        rec['choices'] = t['choices']
                for v, t, d in zip(variants, traces, divs):
                    if d and not rec['div']:
                        rec['div'] = d
                        rec['spec'] = v
                        rec['choices'] = t['choices']
                if infrag:
                    outs = [lockstep.outcome_str(t['results'][0]) if t['results'][0] else t['verdict'] for t in traces]
                    kinds = {o.split(' ')[0] for o in outs}
                    if len(set(outs)) > 1 and kinds != {'error'}:
                        rec['viol'].append(f'outcome depends on the execution modes: {dict(zip(rec["assignments"], outs))}')
                        rec['choices'] = traces[0]['choices']
            else:
                w = ER.World(spec)
                tneed, pneed = bool(w.dag.is_thread_pool_needed), bool(w.dag.is_process_pool_needed)
                state = rng.choice(['thread-none', 'thread-shutdown', 'process-none', 'process-shutdown', 'process-nomanager'])
                warm = rng.random() < 0.5
                if warm:     # the pools were fine for an earlier run of the same DAG object, then break
                    ER.run_program(spec, ER.Policy(random.Random(pseed + 1)), world=w, keep_world=True)
                    state += '+after-a-good-run'
                saved = (threads_pool_registry._pool_executor, process_pool_registry._pool_executor,
                         process_pool_registry._process_manager)
                missing = False
                base = state.split('+')[0]
                if base == 'thread-none':
                    threads_pool_registry._pool_executor = None
                    missing = tneed
                elif base == 'thread-shutdown':
                    threads_pool_registry._pool_executor._shutdown = True
                    missing = tneed
                elif base == 'process-none':
                    process_pool_registry._pool_executor = None
                    missing = pneed
                elif base == 'process-shutdown':
                    process_pool_registry._pool_executor._shutdown_thread = True
                    missing = pneed
                else:
                    process_pool_registry._process_manager = None
                    missing = pneed
                try:
                    tr = ER.run_program(spec, ER.Policy(random.Random(pseed)), world=w, keep_world=True)
                finally:
                    (threads_pool_registry._pool_executor, process_pool_registry._pool_executor,
                     process_pool_registry._process_manager) = saved
                    for ex in saved[:2]:
                        if ex is not None:
                            ex._shutdown = False
                            ex._shutdown_thread = False
                    w.close()
                tr['pools_missing'] = missing
                rec['state'] = state + ('/needed' if missing else '/not-needed')
                rec['handles'] = tr['handles']
                rec['div'] = lockstep.lockstep_many([tr])[0]
                bodies = [o for e in tr['events'] for o in e.get('obs', []) if o[0] in ('body', 'default')]
                if missing:
                    r = tr['results'][0]
                    if bodies:
                        rec['viol'].append(f'pool state {state}: node bodies were invoked although a needed pool is not ready')
                    if not (r and r[0] == 'error'):
                        rec['viol'].append(f'pool state {state}: run did not end with an error result ({r}, {tr["verdict"]})')
                if rec['div'] or rec['viol']:
                    rec['choices'] = tr['choices']
        except Exception as e:  # noqa
            rec['harness_error'] = repr(e)[:300]
        if not (rec['div'] or rec['viol'] or rec.get('harness_error')):
            rec.pop('spec')
        out.append(rec)
    return out


class RealH:
    """bodies for real pools: pure functions of their arguments (no harness state crosses a process boundary)"""

    def __init__(self, spec):
        self.spec = spec

    def _out(self, idx, kw):
        from . import progen
        nd = self.spec['nodes'][idx]
        fh = nd.get('fail_hash')
        if fh:
            ks = ','.join(f'{k}={progen.fmt_val(v)}' for k, v in sorted(kw.items()))
            if progen.fnv1a64(ks) % fh[0] == fh[1]:
                raise progen.EXC[fh[2]](idx, 0, 1)
        b = nd.get('body', {'kind': 'prov'})
        if b['kind'] == 'labels':
            return b['v'][0]          # real-pool runs have no recurrent iterations: first invocation
        return progen.prov(nd['name'], kw) if b['kind'] == 'prov' else b['v']

    async def abody(self, idx, inst, kw):
        await asyncio.sleep(0)
        return self._out(idx, kw)

    def sbody(self, idx, inst, kw):
        return self._out(idx, kw)

    def default(self, idx, kw):
        from . import progen
        cls = self.spec['nodes'][idx].get('dflt_raise')
        if cls:        # a get_default that fails (as in engine_run.World.default)
            raise progen.EXC[cls](idx, 0, 0)
        return progen.prov(self.spec['nodes'][idx]['name'] + '.default', kw)


def real_pool_runs(n, seed):
    """(c): real ThreadPoolExecutor / ProcessPoolExecutor, default loop, real timing. returns (records, violations)"""
    from . import fragment, lockstep, progen
    from ml_pipeline_engine.chart import PipelineChart
    from ml_pipeline_engine.dag_builders.annotation.builder import build_dag
    from ml_pipeline_engine.parallelism import process_pool_registry, threads_pool_registry
    threads_pool_registry.auto_init()
    process_pool_registry.auto_init()
    rng = random.Random(seed)
    recs, viol = [], []
    for i in range(n):
        spec = progen.gen_spec(rng, ['plain', 'switch', 'oneof', 'mixed'][i % 4], 3, 6, fail_p=0.0, retry_p=0.3,
                               hash_fail_p=0.25, modes=MODES)
        if any(nd.get('is_rec') for nd in spec['nodes']):
            continue        # bodies in real pools are stateless: they cannot ask for another iteration
        # a build_node-derived class lives in the engine's own module namespace of the process that created it: a pool worker
        # forked earlier cannot unpickle it (an artefact of creating classes after the pool, not of the engine)
        spec['nodes'][spec['input']].pop('generic_input', None)
        for nd in spec['nodes']:
            nd['delay'] = None if nd.get('delay') is None else 0
        # the module must be importable, with its bodies, in a pool worker process
        header = ('import json\nfrom harness.modes import RealH\nH = RealH(json.loads(%r))\n' % json.dumps(spec))
        classes, _ = progen.build_classes(spec, None, as_file=True, header=header)
        with progen.det_uuids(spec):
            dag = build_dag(input_node=classes[spec['input']], output_node=classes[spec['output']])
        graph, index_of = progen.dump_graph(dag, spec)
        progen.WORLD_INDEX['index_of'] = {**(progen.WORLD_INDEX.get('index_of') or {}), **index_of}
        if not fragment.in_fragment(graph)[0]:
            continue
        chart = PipelineChart(model_name='m', entrypoint=dag)

        async def go():
            return await asyncio.wait_for(chart.run(input_kwargs=dict(spec['input_kwargs'])), timeout=60)
        try:
            res = asyncio.run(go())
            got = ('value ' + lockstep.val_str(progen.canon(res.value))) if res.error is None else \
                ('error ' + lockstep.exc_str(progen.exc_ident(res.error)))
        except asyncio.TimeoutError:
            got = 'TIMEOUT'
        sem = json.loads(C.run_driver(['sem'], [json.dumps({'graph': graph, 'spec': spec})])[0])
        # (bodies in real pools cannot count attempts: exceptions are compared by class and node)
        strip = lambda x: x.rsplit('.', 2)[0]  # noqa
        ok = (got == sem['outcome']) if sem['outcome'].startswith('value') else \
            (got.startswith('error ') and strip(got[6:]) in {strip(c) for c in sem['causes']})
        recs.append({'modes': ''.join(n['mode'][0] for n in spec['nodes']), 'got': got[:60]})
        if not ok:
            viol.append({'what': f'real pools: outcome {got} differs from the dataflow semantics {sem["outcome"]} {sem["causes"]}',
                         'spec': spec})
    return recs, viol


def main_for(pid, tier_):
    T = C.Timer()
    aud = C.audit('C17')
    sys.path.insert(0, str(C.REPO))
    rng = random.Random(C.seed() * 389 + 17)
    n = 900 if tier_ == 'quick' else 8000
    profs = ('plain', 'mixed', 'oneof', 'switch', 'rec', 'shared')
    cases = [('modes' if i % 3 else 'pools', rng.randrange(1 << 40), profs[i % len(profs)]) for i in range(n)]
    chunks = [cases[i:i + 8] for i in range(0, len(cases), 8)]
    C.ensure_built()
    recs = []
    with mp.get_context('fork').Pool(sched.NPROC) as pool:
        for r in pool.imap_unordered(worker, chunks):
            recs += r
    herr = [r for r in recs if r.get('harness_error')]
    if len(herr) > max(3, len(recs) // 50):
        raise C.ToolFailure(f'{len(herr)} harness errors, e.g. {herr[0]["harness_error"]}')
    real, rviol = real_pool_runs(30 if tier_ == 'quick' else 300, C.seed())
    bad = [r for r in recs if r['div'] or r['viol']]
    states = {}
    for r in recs:
        if r.get('state'):
            states[r['state']] = states.get(r['state'], 0) + 1
    cov = dict(aud)
    cov.update({
        'evaluations': sum(4 if r['kind'] == 'modes' else 1 for r in recs) + len(real), 'programs': len(recs) + len(real),
        'distinct_nontrivial': len({r['pseed'] for r in recs}),
        'loop_handles_compared': sum(r.get('handles', 0) for r in recs),
        'pool_states': states, 'real_pool_runs': len(real),
        'real_pool_runs_are': 'differential testing against Sem (outcome only) — not part of the proof-level tie',
        'disagreements_checked': sum(1 for r in recs if r['div']), 'monitor_hits': sum(1 for r in recs if r['viol']) + len(rviol),
        'rule': 'per program 4 assignments of {coroutine, inline, thread, process} modes on virtual executors (lock-step, outcomes '
                'equal and = Sem inside the fragment); every third program under a broken pool registry state (5 kinds); plus real '
                'ThreadPool/ProcessPool runs on the default loop; non-trivial = every program (≥ 3 nodes); distinct by seed',
        'samples': [{k: r.get(k) for k in ('kind', 'profile', 'assignments', 'state')} for r in recs[:3]] + real[:2],
    })
    if bad or rviol:
        if rviol and not bad:
            v = rviol[0]
            C.write_evidence('C17', tier_, 'proof', cov, T.s(), violations=len(rviol))
            C.report_violation('C17', {'property': 'C17', 'kind': 'failing-input-real-pools', 'what': v['what'], 'spec': v['spec']})
            return C.EXIT_VIOLATION
        vv = [r for r in bad if r['viol']]
        r = min(vv or bad, key=lambda x: len(x['spec']['nodes']))
        C.write_evidence('C17', tier_, 'proof', cov, T.s(), violations=len(bad) + len(rviol))
        C.report_violation('C17', {'property': 'C17', 'kind': 'failing-input' if r['viol'] else 'correspondence-broken',
                                   'what': r['viol'] or 'the engine under this mode assignment / pool state no longer behaves like '
                                           'the model MLPE.Eng (no monitor of this property fails)',
                                   'spec': r['spec'], 'choices': r.get('choices'), 'first_divergence': r['div'],
                                   'state': r.get('state'), 'theorems_no_longer_tied': C.prop_theorems('C17')},
                           no_input=not r['viol'])
        return C.EXIT_VIOLATION
    C.write_evidence('C17', tier_, 'proof', cov, T.s(), assumptions=[
        'virtual executors run the submitted function at submit time and deliver the result at an arbitrary later point',
        'real-pool runs: outcome only; thread/process timing, pickling and fork are not modelled'])
    return C.EXIT_OK


replay = sched.replay

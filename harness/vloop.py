"""Hand-stepped asyncio event loop with a virtual clock (DESIGN.md Appendix A).

One `step()` runs exactly one *task-owned* handle (a `Task.__step` / `Task.__wakeup`); handles that
are pure plumbing (future callbacks such as `_set_result_unless_cancelled`, `wrap_future` copies)
are run eagerly as soon as they appear, so the only scheduling decisions left are
  - which ready task handle runs next (the loop's FIFO order; we never reorder it),
  - when an external completion (node body gate, timer) is delivered,
  - when the caller's task is cancelled.
"""
import asyncio
import heapq
import threading
from asyncio import events, futures, tasks


class Drift(Exception):
    """the implementation left the asyncio envelope the model assumes (DESIGN §1.2 A2)"""


class StepLoop(asyncio.SelectorEventLoop):
    def __init__(self):
        super().__init__()
        self._vtime = 0.0
        self.tasks = []                    # creation order = task index
        self.on_task_created = None        # callback(task)
        self.timers_created = []           # (when - now) of every call_at since last drain
        self.set_task_factory(self._mk)
        self.lock_slow_path = False

    # -- construction of pure-Python tasks/futures so handles expose their owner
    def _mk(self, loop, coro, **kw):
        t = tasks._PyTask(coro, loop=loop, **kw)
        t.idx = len(self.tasks)
        self.tasks.append(t)
        if self.on_task_created:
            self.on_task_created(t)
        return t

    def create_future(self):
        return futures._PyFuture(loop=self)

    def time(self):
        return self._vtime

    def call_at(self, when, callback, *args, context=None):
        self.timers_created.append(when - self._vtime)
        return super().call_at(when, callback, *args, context=context)

    # -- manual driving
    def begin(self):
        self._thread_id = threading.get_ident()
        events._set_running_loop(self)

    def end(self):
        events._set_running_loop(None)
        self._thread_id = None

    @staticmethod
    def owner(handle):
        cb = handle._callback
        o = getattr(cb, '__self__', None)
        return o if isinstance(o, tasks._PyTask) else None

    def run_plumbing(self):
        """run every ready handle that is not owned by a task (keeps FIFO order of the rest)."""
        progressed = True
        while progressed:
            progressed = False
            for i, h in enumerate(self._ready):
                if h._cancelled:
                    del self._ready[i]
                    progressed = True
                    break
                if self.owner(h) is None:
                    del self._ready[i]
                    h._run()
                    progressed = True
                    break

    def ready_tasks(self):
        self.run_plumbing()
        return [self.owner(h).idx for h in self._ready]

    def step(self):
        """run the head task handle; returns the index of the task that stepped."""
        self.run_plumbing()
        h = self._ready.popleft()
        t = self.owner(h)
        h._run()
        self.run_plumbing()
        return t.idx

    def live_timers(self):
        return [h for h in self._scheduled if not h._cancelled]

    def fire_next_timer(self):
        """advance the clock to the earliest live timer and run it (plumbing). Returns its deadline."""
        while self._scheduled:
            h = heapq.heappop(self._scheduled)
            h._scheduled = False
            if h._cancelled:
                continue
            self._vtime = max(self._vtime, h._when)
            h._run()
            self.run_plumbing()
            return h._when
        return None


def install_lock_probe(loop_holder):
    """assert that Lock.acquire never takes its slow path (A2). Idempotent."""
    from asyncio import locks
    if getattr(locks.Lock, '_mlpe_probe', False):
        return
    orig = locks.Lock.acquire

    async def acquire(self):
        fast = (not self._locked and (self._waiters is None or all(w.cancelled() for w in self._waiters)))
        if not fast:
            lp = events._get_running_loop()
            if lp is not None and hasattr(lp, 'lock_slow_path'):
                lp.lock_slow_path = True
        return await orig(self)

    locks.Lock.acquire = acquire
    locks.Lock._mlpe_probe = True

"""Property monitors: executable predicates on IMPLEMENTATION traces (DESIGN.md §4.4).

They are what turns a broken correspondence into a concrete failing input, and they run on every
explored trace as an independent check inside the fragments where the theorems apply.
`sem` is the answer of the Lean `Sem` evaluator for the program (driver mode `sem`), or None.
Each monitor returns a list of human-readable violation strings (empty = holds on this trace).
"""
from . import fragment
from . import lockstep as L


def _events(tr):
    return [e for e in tr['events'] if e['k'] != 'init']


def _obs(tr, kinds, include_after=False):
    evs = _events(tr) + (tr.get('after', []) if include_after else [])
    for i, e in enumerate(evs):
        for o in e.get('obs', []):
            if o[0] in kinds:
                yield i, o


def cancel_requested(tr):
    return any(c and c[0] == 'cancel' for c in tr.get('choices', []))


# ------------------------------------------------------------------------------------------- C02
def c02(tr, sem=None):
    if tr['verdict'] == 'deadlock':
        return ['deadlock: loop idle, no body / timer outstanding, run still pending']
    if tr['verdict'] == 'handle-limit':
        return ['no termination within the handle limit']
    return []


def hang(pid, tr, sem):
    """a run that hangs (the stepping loop is idle, nothing is outstanding, run() is pending) inside the fragment where the
    dataflow semantics is defined is a failing input of every property that promises a consumer, or the caller, its value:
    C01 (there is no outcome at all), C05 (a failure is never reported), C09 / C10 / C11 (the consumer of the switch /
    one-of / recurrent subgraph never receives the value).  `sem` is None outside the fragment."""
    if tr['verdict'] != 'deadlock' or sem is None or cancel_requested(tr):
        return []
    g = tr['graph']
    what = None
    if pid == 'C01':
        what = f'the run hangs; the dataflow semantics gives {sem["outcome"]}'
    elif pid == 'C05' and not sem['outcome'].startswith('value'):
        what = f'the run hangs instead of reporting the failure {sem["causes"]}'
    elif pid == 'C09' and any(n['is_switch'] for n in g['nodes']):
        what = 'the run hangs: a consumer of a switch never receives the value of the selected case'
    elif pid == 'C10' and any(n['is_oneof_head'] for n in g['nodes']):
        what = 'the run hangs: the consumer of a one-of never receives the value of a successful candidate'
    elif pid == 'C11' and any(n['start_node'] is not None for n in g['nodes']):
        what = 'the run hangs: the consumers of a recurrent subgraph never receive its final result'
    if what is None:
        return []
    started = {o[2] for _, o in _obs(tr, ('body',))}
    demanded = [n for n in sem.get('demanded', []) if n not in started and
                any(x['id'] == n and x['in_map'] for x in g['nodes'])]
    return [what + f' (semantics: {sem["outcome"]}; needed nodes never started: {sorted(demanded)})']


# ------------------------------------------------------------------------------------------- C05 / C01
def c05(tr, sem=None):
    v = []
    r = tr['results'][0] if tr['results'] else None
    if r is None:
        return v
    if r[0] == 'cancelled' and not cancel_requested(tr):
        v.append('chart.run ended with CancelledError although nobody cancelled it')
    if r[0] == 'raised' and r[1][0] != 'B0':
        v.append(f'chart.run raised {L.exc_str(r[1])} instead of returning an error result')
    if r[0] == 'error' and (r[1][0].startswith('Other:') or r[1][0] == 'Cancelled'):
        v.append(f'engine-internal artefact reported as the outcome: {L.exc_str(r[1])}')
    if sem is not None and r[0] in ('value', 'error') and not cancel_requested(tr):
        if sem['outcome'].startswith('value'):
            if r[0] == 'error':
                v.append(f'run failed with {L.exc_str(r[1])} although the dataflow semantics yields {sem["outcome"]}')
        else:
            if r[0] == 'value':
                v.append(f'run returned {L.val_str(r[1])} although a required node fails ({sem["causes"]})')
            elif L.exc_str(r[1]) not in sem['causes']:
                v.append(f'reported error {L.exc_str(r[1])} is not a root cause ({sem["causes"]})')
    return v


def c01(tr, sem=None):
    v = []
    r = tr['results'][0] if tr['results'] else None
    if sem is None or r is None or cancel_requested(tr):
        return v
    got = L.outcome_str(r)
    if sem['outcome'].startswith('value'):
        if got != sem['outcome']:
            v.append(f'outcome {got} differs from the dataflow semantics {sem["outcome"]}')
    elif not (r[0] in ('error', 'raised') and L.exc_str(r[1]) in sem['causes']):
        v.append(f'outcome {got}; the dataflow semantics fails with one of {sem["causes"]}')
    return v


# ------------------------------------------------------------------------------------------- C03
def c03(tr, sem=None):
    v = []
    saved = {}            # node -> last stored value (every set_node_result is followed by a save)
    for i, e in enumerate(_events(tr)):
        for o in e.get('obs', []):
            if o[0] == 'save':
                saved[o[2]] = o[3]
            if o[0] == 'body':
                for k, x in o[5].items():
                    if isinstance(x, dict) and 'exc' in x:
                        v.append(f'node {o[2]} invoked with a failure object as {k}: {L.val_str(x)}')
                    if isinstance(x, dict) and 'rec' in x:
                        v.append(f'node {o[2]} invoked with a Recurrent marker as {k}: {L.val_str(x)}')
    if not v and not fragment.features(tr['graph']).get('rec_outside_reader'):
        # "invoked only after every node it declares as an input has finished": no producer of an ordinary input is in the
        # middle of an execution (again — a restart) when the body is called. (A reader outside a recurrent subgraph of a
        # node inside it is the recorded finding `rec_outside_reader`.)
        preds = {}
        for e in tr['graph']['edges']:
            if e['kwarg']:
                preds.setdefault(e['v'], []).append(e['u'])
        running = set()
        for i, e in enumerate(_events(tr)):
            for o in e.get('obs', []):
                if o[0] == 'emit' and o[1] == 'nstart':
                    running.add(o[3])
                elif o[0] == 'emit' and o[1] == 'ncomplete':
                    running.discard(o[3])
                elif o[0] == 'body' and o[4] == 1 and not v:
                    busy = [p for p in preds.get(o[2], []) if p in running and p != o[2]]
                    if busy:
                        v.append(f'node {o[2]} was invoked while its input node {busy[0]} was being executed (again): '
                                 f'its inputs were not final')
    if sem is not None and not v:
        want = set(sem['calls'])
        for _, o in _obs(tr, ('body',)):
            if o[4] != 1:
                continue
            s = f'{o[2]} {o[3]} ' + L.kw_str(o[5])
            if s not in want:
                v.append(f'node invocation "{s}" is not an application of the dataflow semantics')
                break
    return v


# ------------------------------------------------------------------------------------------- C04
def _rec_membership(graph):
    """node -> list of recurrent destinations whose start→dest subgraph (unfiltered graph) contains it"""
    succ, pred = {}, {}
    for n in graph['nodes']:
        succ[n['id']] = set()
        pred[n['id']] = set()
    for e in graph['edges']:
        succ[e['u']].add(e['v'])
        pred[e['v']].add(e['u'])

    def reach(adj, a):
        seen, st = {a}, [a]
        while st:
            x = st.pop()
            for y in adj.get(x, ()):
                if y not in seen:
                    seen.add(y)
                    st.append(y)
        return seen
    mem = {}
    for n in graph['nodes']:
        if n['start_node'] is not None:
            sub = reach(succ, n['start_node']) & reach(pred, n['id'])
            for x in sub:
                mem.setdefault(x, []).append(n['id'])
    return mem


def c04(tr, sem=None):
    """trace-only (valid for every program): the counterpart of theorem C04_at_most_once_per_iteration"""
    v = []
    seen = {}
    for _, o in _obs(tr, ('body',), include_after=True):
        key = (o[2], o[3], o[4])
        seen[key] = seen.get(key, 0) + 1
    for k, c in seen.items():
        if c > 1:
            v.append(f'body of node {k[0]} executed {c} times for invocation {k[1]} attempt {k[2]}')
    starts = {}
    for _, o in _obs(tr, ('emit',), include_after=True):
        if o[1] == 'nstart':
            starts[o[3]] = starts.get(o[3], 0) + 1
    mem = _rec_membership(tr['graph'])
    for n, c in starts.items():
        bound = 1 + sum(starts.get(d, 0) for d in mem.get(n, []))
        if c > bound:
            where = 'outside every recurrent subgraph' if not mem.get(n) else f'inside the subgraphs of {mem[n]}'
            v.append(f'node {n} executed {c} times ({where}; bound {bound})')
    for _, o in _obs(tr, ('reused-instance',), include_after=True):
        v.append(f'node object of {o[1]} reused for a second invocation')
    return v


# ------------------------------------------------------------------------------------------- C09 / C10 laziness
def lazy(tr, sem):
    """nodes the dataflow semantics never demands must never start"""
    v = []
    if sem is None:
        return v
    dem = set(sem['demanded'])
    for _, o in _obs(tr, ('emit',), include_after=True):
        if o[1] == 'nstart' and o[3] not in dem:
            v.append(f'node {o[3]} was executed although nothing selected / tried needs it')
    return v


def c09_routing(tr):
    """trace-only: a consumer of a switch is invoked with the latest value of the case whose label is the latest value
    of the decision node (values as recorded by the artifact store)"""
    g = tr['graph']
    sw = {n['id'] for n in g['nodes'] if n['is_switch']}
    if not sw:
        return []
    decider, cases = {}, {}
    for e in g['edges']:
        if e['v'] in sw:
            if e.get('is_switch'):
                decider[e['v']] = e['u']
            elif e.get('case') is not None:
                cases.setdefault(e['v'], {})[e['case']] = e['u']
    cons = [(e['u'], e['v'], e['kwarg']) for e in g['edges'] if e['u'] in sw and e.get('kwarg')]
    last = {}
    v = []
    for _, o in _obs(tr, ('save', 'body')):
        if o[0] == 'save':
            last[o[2]] = o[3]
        else:
            n, kw = o[2], o[5]
            for s_, c_, k in cons:
                if c_ != n or k not in kw or decider.get(s_) not in last:
                    continue
                lab = last[decider[s_]]
                want = cases.get(s_, {}).get(lab if isinstance(lab, str) else None)
                if want is None or want not in last:
                    continue
                if kw[k] != last[want] and not v:
                    v.append(f'node {n} invoked with {k}={kw[k]!r}; the decision node {decider[s_]} returned {lab!r}, whose '
                             f'case node {want} has the value {last[want]!r}')
    return v


def c09_declared_routing(tr):
    """trace-only, from the DECLARATIONS (not from the built graph, which a builder defect could have got wrong): a node
    that declares `p: SwitchCase(decider, cases)` is invoked with p = the latest value of the case whose label is the
    latest value of the decider (values as recorded by the artifact store)"""
    nodes = tr['spec']['nodes']
    marks = {i: [(p, m) for p, m in nd['marks'] if m['kind'] == 'switch'] for i, nd in enumerate(nodes)}
    if not any(marks.values()):
        return []
    last = {}
    v = []
    for _, o in _obs(tr, ('save', 'body')):
        if o[0] == 'save':
            last[o[2]] = o[3]
            continue
        n, kw = o[2], o[5]
        for p, m in marks.get(n, []):
            if p not in kw or m['decider'] not in last:
                continue
            lab = last[m['decider']]
            want = next((c for l, c in m['cases'] if l == lab), None) if isinstance(lab, str) else None
            if want is None:
                continue
            if want not in last:
                # the store has seen the decision but never a value of the declared case: the consumer got somebody
                # else's value (e.g. two switch declarations merged into one node by the builder)
                if not v:
                    v.append(f'node {n} declares {p}: SwitchCase(decider {m["decider"]}, …) and was invoked with {p}={kw[p]!r}; '
                             f'the decider returned {lab!r}, but its declared case node {want} has not produced a value')
                continue
            if kw[p] != last[want] and not v:
                v.append(f'node {n} declares {p}: SwitchCase(decider {m["decider"]}, …) and was invoked with {p}={kw[p]!r}; the '
                         f'decider returned {lab!r}, whose case node {want} has the value {last[want]!r}')
    return v


def c09(tr, sem=None):
    if not any(n['is_switch'] for n in tr['graph']['nodes']) and \
            not any(m['kind'] == 'switch' for nd in tr['spec']['nodes'] for _, m in nd['marks']):
        return []
    return c09_routing(tr) + c09_declared_routing(tr) + lazy(tr, sem)


def c10(tr, sem=None):
    return lazy(tr, sem) if any(n['is_oneof_head'] for n in tr['graph']['nodes']) else []


# ------------------------------------------------------------------------------------------- C11
def c11(tr, sem=None):
    v = []
    recs = {n['id']: n for n in tr['graph']['nodes'] if n['start_node'] is not None}
    if not recs:
        return v
    # iteration bound: first attempts of a destination <= 1 + max_iterations (+1 never: default is not a body call)
    cnt = {}
    for _, o in _obs(tr, ('body',)):
        if o[4] == 1 and o[2] in recs:
            cnt[o[2]] = cnt.get(o[2], 0) + 1
    for d, c in cnt.items():
        mx = recs[d]['max_iter'] or 0
        if sem is not None and c > 1 + mx:
            v.append(f'recurrent destination {d} executed {c} times with max_iterations={mx}')
    return v


# ------------------------------------------------------------------------------------------- C13
def c13(tr, sem=None):
    v = []
    if tr['verdict'] != 'finished':
        return v
    if tr.get('leftover_tasks'):
        v.append(f'tasks still pending after the run ended and the loop was drained: {tr["leftover_tasks"]}')
    for e in tr.get('after', []):
        for o in e.get('obs', []):
            if o[0] in ('body', 'emit', 'save', 'spawn', 'default'):
                v.append(f'{o[0]} {o[1:3]} happened after chart.run had ended')
    # … also not in a callback of another event manager that was started before the end and is still running
    n_end = tr.get('obs2_at_end')
    if n_end is not None and len(tr.get('obs2') or []) > n_end:
        late = tr['obs2'][n_end]
        v.append(f'the second event manager was told {late[0]} (node {late[2]}) after chart.run had ended')
    r = tr['results'][0] if tr['results'] else None
    if cancel_requested(tr) and r is not None and r[0] == 'raised':
        v.append(f'cancelling the run surfaced {L.exc_str(r[1])} instead of CancelledError')
    return v


# ------------------------------------------------------------------------------------------- C14
def c14(tr, sem=None):
    v = []
    seq = []
    for i, e in enumerate(_events(tr)):
        t = e.get('t')
        for o in e.get('obs', []):
            if o[0] == 'emit':
                seq.append((o[1], o[3], o[4], t))
            elif o[0] == 'save':
                seq.append(('save', o[2], o[3], t))
            elif o[0] == 'body':
                seq.append(('body', o[2], o[5], t))
    if not seq:
        return v
    r = tr['results'][0] if tr['results'] else None
    if seq[0][0] != 'pstart':
        v.append('first event is not on_pipeline_start')
    if sum(1 for s in seq if s[0] == 'pstart') != 1:
        v.append('on_pipeline_start not exactly once')
    ncomp = [s for s in seq if s[0] == 'pcomplete']
    if r is not None and r[0] in ('value', 'error'):
        if len(ncomp) != 1 or [x for x in seq if x[0] in ('pstart', 'pcomplete', 'nstart', 'ncomplete')][-1][0] != 'pcomplete':
            v.append('on_pipeline_complete not exactly once / not last')
        elif L.outcome_str(ncomp[0][2]) != L.outcome_str(r):
            v.append('on_pipeline_complete carries a different result than run returned')
    # per execution (= per node and executing task): nstart (body… ncomplete err)* ncomplete ;
    # the value is stored (save) only after a successful ncomplete
    state = {}
    for kind, n, x, t in seq:
        k = (n, t)
        if kind == 'nstart':
            if state.get(k) == 'open':
                v.append(f'on_node_start of node {n} twice without on_node_complete')
            state[k] = 'open'
        elif kind == 'ncomplete':
            if state.get(k) not in ('open',):
                v.append(f'on_node_complete of node {n} without a preceding on_node_start / body call')
            state[k] = 'ok' if x is None else 'failed-or-retry'
        elif kind == 'save':
            if state.get(k) == 'open':
                v.append(f'value of node {n} stored before its on_node_complete')
            isexc = isinstance(x, dict) and 'exc' in x
            if state.get(k) == 'failed-or-retry' and not isexc:
                v.append(f'value of node {n} stored after a failing on_node_complete')
        elif kind == 'body':
            if state.get(k) == 'failed-or-retry':
                state[k] = 'open'      # retry attempt
            elif state.get(k) != 'open':
                v.append(f'body of node {n} invoked without on_node_start')
    for _, o in _obs(tr, ('emit',), include_after=False):
        pass
    for e in tr.get('after', []):
        for o in e.get('obs', []):
            if o[0] == 'emit':
                v.append(f'event {o[1]} of node {o[3]} emitted after on_pipeline_complete / after the run ended')
    v += c14_second_manager(tr)
    return v


def c14_second_manager(tr):
    """the view of a second event manager (registered after the first, never suspends, never raises): every manager sees a
    node's successful on_node_complete before the node's value is delivered to a consumer, on_pipeline_start first and
    on_pipeline_complete last"""
    obs2 = [o for o in tr.get('obs2', []) if o[1] == 0]
    if not obs2 or tr['spec'].get('cbraise') or cancel_requested(tr) or len(tr.get('results') or []) != 1:
        return []
    v = []
    g = tr['graph']
    ordinary = {n['id'] for n in g['nodes'] if n['in_map']}
    has_rec = any(n['start_node'] is not None for n in g['nodes'])
    # positions of the body calls in the observation stream (every observation except the harness's own 'sleep' notes)
    pos, bodies = 0, []
    for e in tr['events'] + tr.get('after', []):
        for o in e.get('obs', []):
            if o[0] == 'sleep':
                continue
            if o[0] == 'body':
                bodies.append((pos, o[2], o[5]))
            pos += 1
    done2 = {}
    for kind, _, n, x, p2 in obs2:
        if kind == 'ncomplete' and x is None:
            done2.setdefault(n, p2)
    if not has_rec:
        for p, m, kw in bodies:
            for e in g['edges']:
                if e['v'] == m and e['kwarg'] and e['u'] in ordinary and e['kwarg'] in kw:
                    val = kw[e['kwarg']]
                    if isinstance(val, dict) and 'exc' in val:
                        continue
                    if e['u'] not in done2 or done2[e['u']] > p:
                        v.append(f'the value of node {e["u"]} was delivered to node {m} before the second event manager '
                                 f'had seen its successful on_node_complete')
                        break
    r = tr['results'][0]
    if r is not None and r[0] in ('value', 'error'):
        kinds = [o[0] for o in obs2]
        if kinds.count('pstart') != 1 or kinds[0] != 'pstart':
            v.append('the second event manager did not see on_pipeline_start exactly once, first')
        if kinds.count('pcomplete') != 1 or kinds[-1] != 'pcomplete':
            v.append('the second event manager did not see on_pipeline_complete exactly once, last')
    return v[:3]


# ------------------------------------------------------------------------------------------- C19
def _save_cut_off_by_the_end_of_the_run(tr, n):
    """the save of node n was started by the task that executed n (`_run_node`), and that task ended cancelled"""
    evs = _events(tr) + tr.get('after', [])
    names, status, saver = {}, {}, None
    for e in evs:
        for o in e.get('obs', []):
            if o[0] == 'spawn':
                names[o[1]] = o[2]
            if o[0] == 'save' and o[2] == n:
                saver = e.get('t')
        for d in e.get('done') or []:
            status[d[0]] = d[1][0]
    return saver is not None and names.get(saver) == ['node', n] and status.get(saver) == 'cancelled'


def _announcement_cut_off_by_the_end_of_the_run(tr, n):
    """node n never completed in this run: every task that began to announce on_node_complete(n, error=None) was cancelled
    while the first event manager's callback was still suspended.  `_execute_node` has not returned then: the result was
    never stored, no consumer can have received it, and there is no final value to save — the node was still in flight when
    the run ended, exactly like a node whose body is cut off (C13 demands that it is).  Decided from the trace alone: the
    second event manager, which is told after the first and does not suspend here, never heard of the completion, the
    announcing task ended cancelled, and no body was handed the value."""
    if tr['spec'].get('cbraise') or 'obs2' not in tr:
        return False
    if any(o[0] == 'ncomplete' and o[2] == n and o[3] is None for o in tr['obs2']):
        return False
    evs = _events(tr) + tr.get('after', [])
    announcers, status = set(), {}
    for e in evs:
        for o in e.get('obs', []):
            if o[0] == 'emit' and o[1] == 'ncomplete' and o[3] == n and o[4] is None:
                announcers.add(e.get('t'))
        for d in e.get('done') or []:
            status[d[0]] = d[1][0]
    if not announcers or any(status.get(t) != 'cancelled' for t in announcers):
        return False
    if n == tr['graph']['output']:
        return False
    started = {o[2] for _, o in _obs(tr, ('body', 'default'), include_after=True)}
    return not any(e['u'] == n and e['kwarg'] and e['v'] in started for e in tr['graph']['edges'])


def c19(tr, sem=None):
    v = []
    r = tr['results'][0] if tr['results'] else None
    saves = {}
    for _, o in _obs(tr, ('save',)):
        saves.setdefault(o[2], []).append(o[3])
    for n, xs in saves.items():
        for x in xs:
            if isinstance(x, dict) and 'rec' in x:
                v.append(f'intermediate Recurrent marker saved as artifact of node {n}')
            if isinstance(x, dict) and 'exc' in x:
                v.append(f'contained failure saved as artifact of node {n}')
    has_rec = any(n['start_node'] is not None for n in tr['graph']['nodes'])
    if r is not None and r[0] == 'value':
        valued = {o[3] for _, o in _obs(tr, ('emit',)) if o[1] == 'ncomplete' and o[4] is None}
        synthetic = {n['id'] for n in tr['graph']['nodes'] if not n['in_map']}
        if not has_rec or tr.get('c19_strict'):
            # (re-iterations of a recurrent subgraph save every iteration's value: listed finding, see DESIGN §5)
            for n, xs in saves.items():
                if len(xs) > 1 and n not in synthetic:
                    v.append(f'node {n} saved {len(xs)} times')
        recdest = {n['id'] for n in tr['graph']['nodes'] if n['start_node'] is not None}
        for n in valued - recdest:      # (a destination's on_node_complete(None) may belong to a Recurrent marker)
            if n not in saves and not _announcement_cut_off_by_the_end_of_the_run(tr, n):
                v.append(f'node {n} produced a value that was never saved')
        if 'saved_completed' in tr and not has_rec:
            # a value that was delivered to a consumer (or returned) has been saved: the write ran to completion, it was
            # not merely started and then cancelled with the rest of the run
            done = {i for rid, i in tr['saved_completed'] if rid == 0}
            ordinary = {n['id'] for n in tr['graph']['nodes'] if n['in_map']}
            started = {o[2] for _, o in _obs(tr, ('body',))}
            consumed = {e['u'] for e in tr['graph']['edges'] if e['kwarg'] and e['v'] in started and e['u'] in ordinary}
            consumed.add(tr['graph']['output'])
            for n in sorted((consumed & valued & ordinary) - recdest):
                if n in saves and n not in done:
                    if (_save_cut_off_by_the_end_of_the_run(tr, n) and not tr.get('c19_strict')
                            and tr.get('model_agrees')):
                        # recorded finding `save_cut_off`: `_run_node` stores the result before it awaits the save, so
                        # run() can end — and cancel the node's task inside artifact_store.save — while the save is
                        # suspended. Only this call site is excused: the save was awaited by the node's own task, that
                        # task was cancelled by the end of the run, and the trace is reproduced handle by handle by the
                        # model MLPE.Eng, which has this order (store, save, announce) and shares the defect. A save
                        # that is lost in any other way — in a task of its own, after the announcements — is not.
                        continue
                    v.append(f'the value of node {n} was delivered to its consumers but its save never completed '
                             f'(it was started and cancelled)')
    return v


# ------------------------------------------------------------------------------------------- C12 (in any pipeline)
def c12(tr, sem=None):
    """trace-only: every invocation re-uses the arguments of its first attempt (also for get_default), and
    makes at most `attempts` attempts"""
    import json as _j
    v = []
    first = {}
    natt = {}
    for _, o in _obs(tr, ('body', 'default'), include_after=True):
        if o[0] == 'body':
            n, inv, att, kw = o[2], o[3], o[4], _j.dumps(o[5], sort_keys=True)
            natt[(n, inv)] = max(natt.get((n, inv), 0), att)
            if att == 1:
                first[(n, inv)] = kw
            elif first.get((n, inv)) != kw:
                v.append(f'attempt {att} of node {n} got arguments {kw}, attempt 1 got {first.get((n, inv))}')
        else:
            n, kw = o[2], _j.dumps(o[3], sort_keys=True)
            invs = [i for (m, i) in first if m == n]
            if invs and first[(n, max(invs))] != kw and natt.get((n, max(invs)), 0) >= 1:
                # (a forced default of a recurrent destination has no body call of its own invocation)
                pass_forced = any(x['id'] == n and x['start_node'] is not None for x in tr['graph']['nodes'])
                if not pass_forced:
                    v.append(f'get_default of node {n} got {kw}, the body got {first[(n, max(invs))]}')
    # the failure of an attempt is reported once (before the delay, or as the node's final failure): reported a second time,
    # the retry that was due has been abandoned after the delay
    reported = {}
    for _, o in _obs(tr, ('emit',), include_after=True):
        if o[1] == 'ncomplete' and isinstance(o[4], list) and len(o[4]) == 4 and o[4][1] == o[3] and o[4][3] >= 1 \
                and o[4][0] in ('E0', 'E1', 'E2'):
            key = (o[2], o[3], tuple(o[4]))
            reported[key] = reported.get(key, 0) + 1
    for (_, n, ident), k in sorted(reported.items()):
        if k > 1:
            v.append(f'the failure {ident[0]} of attempt {ident[3]} of node {n} (invocation {ident[2]}) was reported {k} times '
                     f'by on_node_complete: the node gave up instead of making the next attempt')
    # "with delay seconds between attempts": the pause that follows a retried attempt is the configured delay — whatever time
    # the attempt itself took, whatever else the clock did meanwhile
    for e in _events(tr) + tr.get('after', []):
        last = None
        for o in e.get('obs', []):
            if o[0] == 'emit' and o[1] == 'ncomplete' and o[4] is not None:
                last = o[3]
            elif o[0] == 'sleep' and last is not None and last < len(tr['spec']['nodes']):
                want = tr['spec']['nodes'][last].get('delay') or 0
                if abs(float(o[1]) - float(want)) > 1e-9:
                    v.append(f'node {last} pauses {o[1]} before its next attempt, its configured delay is {want}')
                last = None
    # where an execution was given up: the exception left the node's task, was reported as the outcome, or get_default ran
    gave_up = set()
    for e in _events(tr) + tr.get('after', []):
        for d in e.get('done', []) or []:
            st = d[1]
            if isinstance(st, list) and st and st[0] == 'exc' and isinstance(st[1], list) and len(st[1]) == 4:
                gave_up.add(tuple(st[1]))
    r0 = tr['results'][0] if tr.get('results') else None
    if r0 is not None and r0[0] in ('error', 'raised') and isinstance(r0[1], list) and len(r0[1]) == 4:
        gave_up.add(tuple(r0[1]))
    last_body = {}
    defaulted = set()
    for i, o in _obs(tr, ('body', 'default'), include_after=True):
        if o[0] == 'body':
            last_body[o[2]] = (o[3], o[4])
        elif o[2] in last_body:
            defaulted.add((o[2],) + last_body[o[2]])
    for (n, inv), k in natt.items():
        if n < len(tr['spec']['nodes']):
            nd = tr['spec']['nodes'][n]
            a = nd.get('attempts') or 1
            if k > a:
                v.append(f'node {n} was invoked {k} times with attempts={a}')
            # giving up early: the last attempt made is planned to fail with a retryable exception, attempts are left, and
            # the run went on (it did not end, e.g. by another node's failure, while this node was between attempts)
            plan = {(i, t): cls for i, t, cls in nd.get('fails') or []}
            cls = plan.get((inv, k))
            retryable = cls is not None and cls != 'B0' and (not nd.get('exceptions') or cls in nd['exceptions'])
            if retryable and k < a and not nd.get('fail_hash') and not cancel_requested(tr) and \
                    ((cls, n, inv, k) in gave_up or (n, inv, k) in defaulted):
                v.append(f'node {n} (invocation {inv}) gave up after {k} of {a} attempts although attempt {k} failed with '
                         f'the retryable {cls}')
    return v


# ------------------------------------------------------------------------------------------- C06
def plain_graph(graph):
    return not any(n['is_switch'] or n['is_oneof_head'] or n['start_node'] is not None or n.get('is_oneof_child')
                   for n in graph['nodes']) and all(e['case'] is None for e in graph['edges'])


def depths(graph):
    """longest path from the input node, over the nodes of the main DAG (ancestors of the output)"""
    pred = {n['id']: [] for n in graph['nodes']}
    for e in graph['edges']:
        pred[e['v']].append(e['u'])
    memo = {}

    def dep(n):
        if n not in memo:
            memo[n] = 0 if not pred[n] else 1 + max(dep(p) for p in pred[n])
        return memo[n]
    need, st = {graph['output']}, [graph['output']]
    while st:
        for p in pred[st.pop()]:
            if p not in need:
                need.add(p)
                st.append(p)
    return {n: dep(n) for n in need}


def c06(tr, sem=None):
    """plain pipelines: whenever the loop is idle (nothing can run without a body / timer completing) every node whose
    lower depths have all completed has been started."""
    g = tr['graph']
    if not plain_graph(g):
        return []
    v = []
    dep = depths(g)
    started, completed = set(), set()
    invoked = set()          # nodes whose body (or get_default) has been called, or that have been reported finished / failed
    st = tr.setdefault('stats', {})
    for ev in _events(tr):
        if ev.get('rid', 0) != 0 and ev['k'] == 'step':
            continue
        if ev['k'] in ('gate', 'timer') and ev.get('idle') and not v:
            st['c06_idle_points'] = st.get('c06_idle_points', 0) + 1
            if len(started - completed) >= 2:
                st['c06_idle_points_with_2+_in_flight'] = st.get('c06_idle_points_with_2+_in_flight', 0) + 1
            for n, dn in dep.items():
                if n not in started and all(m in completed for m, dm in dep.items() if dm < dn):
                    v.append(f'loop idle, every node of depth < {dn} has completed, node {n} (depth {dn}) has not been '
                             f'started; in flight: {sorted(started - completed)}')
                    break
            # "in flight" means the body is running: a node that has announced its start but whose body has not been
            # invoked while the loop is idle is waiting for something — in a plain pipeline that can only be a sibling
            for n in sorted(started - invoked):
                if not v:
                    v.append(f'loop idle: node {n} has announced on_node_start but its body has not been invoked (in flight: '
                             f'{sorted((started & invoked) - completed)}): it is waiting for a sibling')
        for o in ev.get('obs', []):
            if o[0] == 'emit' and o[1] == 'nstart':
                started.add(o[3])
            elif o[0] == 'emit' and o[1] == 'ncomplete':
                invoked.add(o[3])
                if o[4] is None:
                    completed.add(o[3])
            elif o[0] in ('body', 'default'):
                invoked.add(o[2])
    return v


def c06_oracle(tr):
    """hypothesis `LaunchByDepth` of the C06 theorems: every list `_get_node_order` returned for a plain pipeline is
    sorted by depth.  Not a violation by itself: a broken hypothesis means the theorem no longer applies."""
    g = tr['graph']
    if not plain_graph(g):
        return []
    dep = depths(g)
    st = tr.setdefault('stats', {})
    v = []
    for _, o in _obs(tr, ('topo',)):
        st['c06_orders_checked'] = st.get('c06_orders_checked', 0) + 1
        ds = [dep[x] for x in o[1] if x in dep]
        if ds != sorted(ds):
            v.append(f'_get_node_order returned {o[1]} (depths {ds}): not generation by generation, hypothesis '
                     f'LaunchByDepth of C06_plain_next_depth_started does not hold')
    return v


HYPOTHESES = {'C06': c06_oracle}

EVERYWHERE = ('C02', 'C03', 'C04', 'C06', 'C09', 'C12', 'C13', 'C14', 'C19')      # monitors that need no fragment hypothesis

def c19_strict(tr, sem=None):
    """C19 without the two excuses for recorded findings: the multiplicity rule also inside recurrent pipelines, and a
    save that the end of the run cut off inside the node's own task"""
    t = dict(tr)
    t['c19_strict'] = True
    return c19(t, sem)


ALL = {'C12': c12, 'C06': c06, 'C19strict': c19_strict, 'C01': c01, 'C02': c02, 'C03': c03, 'C04': c04, 'C05': c05, 'C09': c09, 'C10': c10, 'C11': c11,
       'C13': c13, 'C14': c14, 'C19': c19}

"""keep a confirmed seeded change: python3 -m harness.keep_mut <mutdir> <seeded-name> "<confirm line>" "<check result>" """
import json
import shutil
import sys
from pathlib import Path

src, name, confirm, result = Path(sys.argv[1]), sys.argv[2], sys.argv[3], sys.argv[4]
dst = Path(__file__).resolve().parent.parent / 'seeded' / name
dst.mkdir(parents=True, exist_ok=True)
shutil.copy(src / 'patch.diff', dst / 'patch.diff')
shutil.copy(src / 'demo.py', dst / 'demo.py')
meta = json.loads((src / 'meta.json').read_text())
meta['confirmed_by_me'] = confirm
meta['check_result'] = result
(dst / 'meta.json').write_text(json.dumps(meta, indent=1, ensure_ascii=False) + '\n')
print('kept', dst)

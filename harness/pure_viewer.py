"""C20 — differential check of the viewer's graph description (`GraphConfigImpl.generate(...).as_dict()`) against the
Lean model `MLPE.Viewer.config`, on every buildable generated pipeline: all mark kinds, build_node-derived generic
nodes, custom and missing node types, node colours; plus JSON-serialisability and a deep snapshot of the DAG before /
after generation."""
import inspect
import json
import random
import sys
import types
import warnings

from . import common as C
from . import progen
from . import pure_builder as PB

warnings.filterwarnings('ignore')


def _stub_viewer_imports():
    # ml_pipeline_viewer.visualization.utils imports two packages that are not installed here; only
    # copy_resources (never called by the check) uses them
    sys.modules.setdefault('importlib_resources', types.ModuleType('importlib_resources'))
    d = types.ModuleType('distutils')
    du = types.ModuleType('distutils.dir_util')
    du.copy_tree = lambda *a, **k: None
    d.dir_util = du
    sys.modules.setdefault('distutils', d)
    sys.modules.setdefault('distutils.dir_util', du)


def snapshot(dag):
    g = dag.graph
    return json.dumps([sorted((n, sorted((str(k), repr(v)) for k, v in a.items())) for n, a in g.nodes(data=True)),
                       sorted((u, v, sorted((str(k), repr(x)) for k, x in a.items())) for u, v, a in g.edges(data=True)),
                       sorted((k, v.__name__) for k, v in dag.node_map.items()), dag.input_node, dag.output_node])


def describe(dag):
    """the model's input: what the viewer reads from the DAG (inspect-derived strings passed through)"""
    from ml_pipeline_viewer.visualization.dag import GraphConfigImpl
    from ml_pipeline_engine.node import get_callable_run_method
    info = {}
    for nid in dag.graph.nodes:
        node = dag.node_map.get(nid)
        if node is None:
            continue
        nt = node.node_type
        info[nid] = {
            'name': node.name, 'verbose_name': node.verbose_name,
            'node_type': None if nt is None else (nt.value if hasattr(nt, 'value') else str(nt)),
            'class_name': node.__name__,
            'doc': inspect.getdoc(get_callable_run_method(node)) or inspect.getdoc(node),
            'code': GraphConfigImpl._get_node_relative_path(node),
        }
    return {'nodes': list(dag.graph.nodes), 'edges': [[u, v] for u, v in dag.graph.edges], 'info': info}


def decorate(spec, rng):
    """custom / missing node types, verbose names, docstrings"""
    for n in spec['nodes']:
        r = rng.random()
        if r < 0.12:
            n['node_type'] = None
        elif r < 0.3:
            n['node_type'] = rng.choice(['custom', 'datasource', 'feature'])
        elif r < 0.42:
            # declared with a member of the engine's own enum instead of a plain string
            n['node_type_enum'] = rng.choice(['processor', 'generic', 'recurrent', 'switch', 'input_one_of'])
        if rng.random() < 0.4:
            n['verbose_name'] = 'Verbose ' + n['name']
        if rng.random() < 0.4:
            n['docstring'] = 'Doc of ' + n['name']
    return spec


def build_real(spec):
    from ml_pipeline_engine.dag_builders.annotation.builder import build_dag
    classes, src = progen.build_classes(spec, PB._H(), as_file=True)
    for i, n in enumerate(spec['nodes']):
        cls = classes[i]
        if 'node_type' in n:
            cls.node_type = n['node_type']
        if 'node_type_enum' in n:
            from ml_pipeline_engine.node.enums import NodeType
            cls.node_type = NodeType(n['node_type_enum'])
        if 'verbose_name' in n:
            cls.verbose_name = n['verbose_name']
        if 'docstring' in n:
            cls.__doc__ = n['docstring']
    return build_dag(input_node=classes[spec['input']], output_node=classes[spec['output']])


def main_for(pid, tier_):
    T = C.Timer()
    sys.path.insert(0, str(C.REPO))
    _stub_viewer_imports()
    aud = C.audit('C20')
    from ml_pipeline_viewer.visualization.dag import GraphConfigImpl
    rng = random.Random(C.seed() * 211 + 20)
    n = 400 if tier_ == 'quick' else 5000
    cases, lines = [], []
    for i in range(n):
        sp = decorate(PB.gen_valid(rng, i), rng)
        try:
            dag = build_real(sp)
        except Exception:  # noqa — not buildable: not in the domain of C20
            continue
        colors = rng.choice([None, {'processor': '#ff0000', 'custom': '#00ff00'}])
        d = describe(dag)
        d['colors'] = colors or {}
        cases.append((sp, dag, colors))
        lines.append(json.dumps(d))
    mout = C.run_driver(['viewer'], lines)
    bad, kinds = [], {}
    for (sp, dag, colors), mo in zip(cases, mout):
        mod = json.loads(mo)
        before = snapshot(dag)
        why = None
        try:
            cfg = GraphConfigImpl(dag).generate(name='g', verbose_name=None, repo_link='http://r', node_colors=colors)
            real = json.loads(json.dumps(cfg.as_dict(), ensure_ascii=False))
        except Exception as e:  # noqa
            real = {'gen_error': type(e).__name__ + ': ' + str(e)[:80]}
        after = snapshot(dag)
        kinds['error' if 'gen_error' in real else 'ok'] = kinds.get('error' if 'gen_error' in real else 'ok', 0) + 1
        if before != after:
            why = 'generating the description modified the DAG'
        elif 'gen_error' in real and 'gen_error' not in mod:
            why = f'generation failed on a buildable pipeline: {real["gen_error"]}'
        elif 'gen_error' not in real:
            attrs = real.pop('attributes', None)
            if attrs != {'verbose_name': 'g', 'name': 'g', 'repo_link': 'http://r', 'edgesep': 60, 'ranksep': 700}:
                why = f'graph attributes wrong: {attrs}'
            elif json.dumps(real, sort_keys=True) != json.dumps(mod, sort_keys=True):
                why = 'description differs from the model'
        if why:
            bad.append({'what': why, 'spec': sp, 'real': real, 'model': mod})
    cov = dict(aud)
    cov.update({
        'evaluations': len(cases), 'programs': len(cases),
        'distinct_nontrivial': len({json.dumps(c[0], sort_keys=True) for c in cases if len(c[0]['nodes']) >= 4}),
        'disagreements_checked': len(bad), 'by_real_outcome': kinds,
        'rule': 'every buildable generated pipeline (all mark kinds, reused marks, unnamed switches, build_node generics) with '
                'random custom / missing node_type, verbose names, docstrings, node colours; description compared key by key '
                'with MLPE.Viewer.config, json round trip, DAG snapshot before/after; non-trivial = ≥ 4 declared nodes',
        'samples': [lines[0][:400]] if lines else [],
    })
    if bad:
        b = min(bad, key=lambda x: len(x['spec']['nodes']))
        C.write_evidence('C20', tier_, 'proof', cov, T.s(), violations=len(bad))
        C.report_violation('C20', {'property': 'C20', 'kind': 'failing-input', 'what': b['what'], 'spec': b['spec'],
                                   'real': b['real'], 'model': b['model'], 'others': len(bad) - 1})
        return C.EXIT_VIOLATION
    C.write_evidence('C20', tier_, 'proof', cov, T.s(), assumptions=[
        'inspect-derived strings (doc, code_source) are passed through as opaque inputs',
        'importlib_resources / distutils (used only by copy_resources) are stubbed'])
    return C.EXIT_OK


def replay(path):
    sys.path.insert(0, str(C.REPO))
    _stub_viewer_imports()
    from ml_pipeline_viewer.visualization.dag import GraphConfigImpl
    doc = json.loads(open(path).read())
    dag = build_real(doc['spec'])
    d = describe(dag)
    d['colors'] = {}
    mod = json.loads(C.run_driver(['viewer'], [json.dumps(d)])[0])
    try:
        real = json.loads(json.dumps(GraphConfigImpl(dag).generate(name='g').as_dict()))
        real.pop('attributes', None)
    except Exception as e:  # noqa
        real = {'gen_error': type(e).__name__ + ': ' + str(e)}
    print('real :', json.dumps(real)[:600])
    print('model:', json.dumps(mod)[:600])
    same = json.dumps(real, sort_keys=True) == json.dumps(mod, sort_keys=True)
    return 0 if same else 1

"""Lock-step validation of the Lean engine model `MLPE.Eng` against implementation traces.

For every loop event of the implementation (one task handle, one external completion, one
cancellation) the Lean driver applies the same choice to the model and prints the model's
observations; they must equal what the real engine did in that handle.
"""
import json

from . import common as C


def val_str(v):
    if v is None:
        return 'None'
    if isinstance(v, bool):
        return 'True' if v else 'False'
    if isinstance(v, int):
        return str(v)
    if isinstance(v, str):
        return "'" + v + "'"
    if isinstance(v, dict):
        if 'exc' in v:
            return 'EXC<' + exc_str(v['exc']) + '>'
        if 'rec' in v:
            return 'REC<' + val_str(v['rec']) + '>'
    return 'OBJ'


def exc_str(e):
    return f'{e[0]}@{e[1]}.{e[2]}.{e[3]}'


def kw_str(kw):
    return '{' + ','.join(f'{k}={val_str(v)}' for k, v in sorted(kw.items())) + '}'


def outcome_str(r):
    if r is None:
        return None
    if r[0] == 'value':
        return 'value ' + val_str(r[1])
    if r[0] in ('error', 'raised'):
        return r[0] + ' ' + exc_str(r[1])
    return 'cancelled'


def obs_strs(ev, rid=0):
    """canonical observation strings of one implementation event (for run `rid`)"""
    main, aux, topo = [], [], []
    for o in ev.get('obs', []):
        k = o[0]
        if k == 'emit':
            _, kind, r, i, x = o
            if kind == 'pstart':
                main.append('pstart')
            elif kind == 'pcomplete':
                main.append('pcomplete ' + outcome_str(x))
            elif kind == 'nstart':
                main.append(f'nstart {i}')
            else:
                main.append(f'ncomplete {i} ' + ('None' if x is None else exc_str(x)))
        elif k == 'body':
            main.append(f'body {o[2]} {o[3]} {o[4]} ' + kw_str(o[5]))
        elif k == 'gate':
            main.append(f'gate {o[1][1]} {o[1][2]} {o[1][3]}')
        elif k == 'default':
            main.append(f'default {o[2]} ' + kw_str(o[3]))
        elif k == 'save':
            main.append(f'save {o[2]} ' + val_str(o[3]))
        elif k == 'spawn':
            nm = o[2]
            if nm[0] == 'caller':
                continue
            main.append(f'spawn {o[1]} ' + ' '.join(str(x) for x in nm))
        elif k == 'topo':
            topo.append(o[1])
            main.append(f'topo {o[1]}')
        elif k == 'sleep':
            aux.append(f'sleep {int(o[1])}')
        elif k == 'reused-instance':
            main.append(f'REUSED-NODE-INSTANCE {o[1]}')
    for d in ev.get('done', []):
        idx, st = d[0], d[1]
        if len(d) > 2 and d[2] != rid:
            continue
        if st[0] == 'ok':
            aux.append(f'done {idx} ok')
        elif st[0] == 'exc':
            aux.append(f'done {idx} exc ' + exc_str(st[1]))
        else:
            aux.append(f'done {idx} cancelled')
    return main, sorted(aux), topo


def split_model(obs):
    main, aux = [], []
    for o in obs:
        if o.startswith('sleep ') or o.startswith('done ') or o.startswith('returned '):
            if not o.startswith('returned '):
                aux.append(o)
        else:
            main.append(o)
    return main, sorted(aux)


def _belongs(ev, rid):
    if ev['k'] == 'gate':
        return ev['g'][0] == rid
    return ev.get('rid', 0) == rid


def trace_lines(tr, rid=0):
    """driver input lines for one run of a trace (events of other, overlapping runs are invisible to it)"""
    spec = tr['spec']
    if tr.get('inputs'):
        spec = dict(spec)
        spec['input_kwargs'] = tr['inputs'][rid]
    lines = ['reset', json.dumps({'graph': tr['graph'], 'spec': spec,
                                  'pools_missing': bool(tr.get('pools_missing'))})]
    evs = [e for e in tr['events'] if e['k'] != 'init' and _belongs(e, rid)] + \
          [e for e in tr.get('after', []) if _belongs(e, rid)]
    res = tr['results'][rid] if tr['results'] else None
    for ev in evs:
        if ev['k'] == 'step':
            _, _, topo = obs_strs(ev, rid)
            pick = None
            for o in ev['obs']:
                if o[0] == 'emit' and o[1] == 'pcomplete' and o[4][0] == 'error':
                    pick = o[4][1]
            if pick is None and res and res[0] == 'raised' and any(d[0] == 0 for d in ev.get('done', [])):
                pick = res[1]
            lines.append(json.dumps({'k': 'step', 't': ev['t'], 'topo': topo, 'pick': pick}))
        elif ev['k'] == 'gate':
            lines.append(json.dumps({'k': 'gate', 'g': ev['g']}))
        elif ev['k'] == 'timer':
            lines.append(json.dumps({'k': 'timer', 'woken': ev['woken']}))
        elif ev['k'] == 'cancel':
            lines.append(json.dumps({'k': 'cancel'}))
    lines.append(json.dumps({'k': 'end'}))
    return lines, evs


def compare(tr, out, rid=0):
    """out = driver answers for trace_lines(tr, rid) (without the reset / program answers).
    returns None if model and implementation agree, else a dict describing the first divergence."""
    _, evs = trace_lines(tr, rid)
    cov = set()
    for i, ev in enumerate(evs):
        ans = json.loads(out[i])
        if 'error' in ans:
            return {'at': i, 'event': ev, 'why': 'driver-error', 'model': ans}
        if not ans.get('en'):
            return {'at': i, 'event': ev, 'why': 'choice not enabled in the model', 'model': ans}
        imain, iaux, _ = obs_strs(ev, rid)
        mmain, maux = split_model(ans.get('obs', []))
        if 'BAD-ORACLE' in mmain:
            return {'at': i, 'event': ev, 'why': 'launch order rejected by the model (not a topological order of the expected node set)',
                    'model': ans}
        if imain != mmain or iaux != maux:
            return {'at': i, 'event': ev, 'why': 'observations differ', 'impl': imain + iaux, 'model': mmain + maux}
    end = json.loads(out[len(evs)])
    want = outcome_str(tr['results'][rid]) if tr['results'] and tr['results'][rid] else None
    if end.get('outcome') != want:
        return {'at': len(evs), 'why': 'outcome differs', 'impl': want, 'model': end}
    if tr['verdict'] == 'deadlock' and want is None and not end.get('stuck'):
        return {'at': len(evs), 'why': 'implementation deadlocked, model is not stuck', 'model': end}
    left = sorted(x[1] for x in tr.get('leftover_tasks', []) if x[0] == rid)
    if tr['verdict'] == 'finished' and left != sorted(end.get('not_done', [])):
        return {'at': len(evs), 'why': 'leftover tasks differ', 'impl': left, 'model': end}
    return None


def lockstep_many(traces):
    """returns list of divergences (None = agree), one per trace; one driver process.
    A trace with several overlapping runs is split: every run is replayed on its own fresh model instance."""
    all_lines, spans = [], []
    for ti, tr in enumerate(traces):
        for rid in range(max(1, len(tr.get('results') or [1]))):
            lines, evs = trace_lines(tr, rid)
            spans.append((ti, rid, len(all_lines), len(lines)))
            all_lines += lines
    out = C.run_driver(['eng'], all_lines)
    res = [None] * len(traces)
    for ti, rid, start, n in spans:
        d = compare(traces[ti], out[start + 2: start + n], rid)
        if d and res[ti] is None:
            d['run'] = rid
            res[ti] = d
    return res

"""C07 (a chart is reusable) and C08 (overlapping runs do not interfere).

The model has no state that survives a run and no state shared between runs (`Eng.init` is a constant, `Eng.step`
a pure function of the run's own state): C07_* / C08_* say so.  What has to be established is that the CODE is
like that, so the weight is on the tie:
  C07: histories of 2–6 sequential runs (mixed inputs, successes and failures) on ONE chart object; every run is
       lock-stepped against a FRESH model instance; the DAG (graph, attributes, node map), the node classes'
       attributes and the caller's input dict are deep-snapshotted around every run.
  C08: 2–4 runs of one chart overlapping on one loop under interleaved schedules (one of them possibly
       cancelled); the events of each run are replayed on its own fresh model instance — so any influence of
       another run shows up as a divergence — and every outcome is compared with the solo run.
"""
import copy
import json
import multiprocessing as mp
import random
import sys

from . import common as C
from . import sched


def snap(w):
    g = w.dag.graph
    cls = []
    for i, c in sorted(w.classes.items()):
        cls.append((i, sorted((k, repr(v)) for k, v in vars(c).items()
                              if not k.startswith('__') and k not in ('process', 'get_default'))))
    return json.dumps([sorted((n, sorted((str(k), repr(v)) for k, v in a.items())) for n, a in g.nodes(data=True)),
                       sorted((u, v, sorted((str(k), repr(x)) for k, x in a.items())) for u, v, a in g.edges(data=True)),
                       sorted((k, v.__name__) for k, v in w.dag.node_map.items()), cls], sort_keys=True)


def worker(chunk):
    from . import engine_run as ER, fragment, lockstep, progen
    sched._init_worker()
    out = []
    for mode, pseed, profile in chunk:
        rng = random.Random(pseed)
        if profile.startswith('motif:'):
            # a hand-written interaction program (harness/mkcorpus.py), run as a history / as overlapping runs
            from . import mkcorpus
            spec = copy.deepcopy({**mkcorpus.CORPUS, **mkcorpus.MOTIFS}[profile[6:]])
        else:
            spec = progen.gen_spec(rng, profile, 3, 8, cb_p=0.2, fail_p=0.15, hash_fail_p=0.3,
                                    modes=('coro', 'coro', 'inline', 'thread') if mode == 'C07' else ('coro',))
        rec = {'mode': mode, 'pseed': pseed, 'profile': profile, 'viol': [], 'div': None, 'spec': spec}
        try:
            if mode == 'C07':
                w = ER.World(spec)
                s0 = snap(w)
                k = rng.randint(2, 6)
                traces = []
                from ml_pipeline_engine.parallelism import threads_pool_registry
                needs_pool = bool(w.dag.is_thread_pool_needed)
                ik = None
                for r in range(k):
                    # a caller may keep its request in one dict and pass that very dict to several runs
                    if ik is None or rng.random() < 0.6:
                        ik = {'x': rng.choice(['v', 'w', '', 'u%d' % r])}
                        if spec['nodes'][spec['input']].get('generic_input') and rng.random() < 0.5:
                            ik['opt'] = 'o%d' % r       # an optional input key: given in some runs, absent in others
                        pristine = dict(ik)       # what the caller wrote into it
                    ik0 = dict(ik)
                    # the pool registry is the one piece of state outside the chart: shut the pool down (or bring it back)
                    down = needs_pool and r > 0 and rng.random() < 0.35
                    threads_pool_registry._pool_executor._shutdown = down
                    pol = ER.Policy(random.Random(rng.randrange(1 << 30)), early_p=rng.choice([0.0, 0.3]),
                                    cancel_at=rng.randrange(0, 30) if rng.random() < 0.15 else None)
                    tr = ER.run_program(spec, pol, world=w, keep_world=(r < k - 1), inputs=[ik])
                    tr['pools_missing'] = down
                    if down and any(o[0] == 'body' for e in tr['events'] for o in e.get('obs', [])):
                        rec['viol'].append(f'run {r}: the needed pool was shut down, yet node bodies were invoked '
                                           '(no fail-fast after an earlier successful run)')
                    if ik != ik0:
                        rec['viol'].append(f'run {r} changed the caller\'s input_kwargs: {ik0} -> {ik}')
                    if snap(w) != s0:
                        rec['viol'].append(f'run {r} left state behind in the DAG / node classes')
                        s0 = snap(w)
                    # the same run on a fresh chart, same schedule
                    fw = ER.World(spec)
                    threads_pool_registry._pool_executor._shutdown = down
                    fresh = ER.run_program(spec, ER.ScriptPolicy(tr['choices']), inputs=[dict(ik0)], world=fw)
                    # C03: every body invocation of the history run gets the arguments it gets on a fresh chart
                    ba = [o[2:] for e in tr['events'] for o in e.get('obs', []) if o[0] == 'body']
                    bb = [o[2:] for e in fresh['events'] for o in e.get('obs', []) if o[0] == 'body']
                    # C03: the input node gets exactly what the caller put into the dict it passes — also when the caller
                    # passes the same dict to several runs
                    first_in = next((o for o in ba if o[0] == spec['input']), None)
                    if first_in is not None and first_in[3] != {k: progen.canon(v) for k, v in pristine.items()}:
                        rec.setdefault('viol_c03', []).append(
                            f'run {r} of the history invokes the input node with {first_in[3]}; the caller\'s input_kwargs '
                            f'are {pristine} (the dict was passed to an earlier run as well)')
                    if ba != bb and fresh['verdict'] == tr['verdict']:
                        dif = next((x for x, y in zip(ba, bb) if x != y), None)
                        rec.setdefault('viol_c03', []).append(
                            f'run {r} of the history invokes node {dif[0] if dif else "?"} with {dif[3] if dif else "?"}; on a '
                            f'fresh chart under the same schedule the arguments differ (a value from another run)')
                    a, b = fresh['results'][0], tr['results'][0]
                    both_err = bool(a and b and a[0] == 'error' and b[0] == 'error')   # any root cause is legitimate (C05)
                    if (fresh['results'] != tr['results'] and not both_err) or fresh['verdict'] != tr['verdict']:
                        rec['viol'].append(f'run {r} of the history gives {tr["results"]} / {tr["verdict"]}, a fresh chart '
                                           f'gives {fresh["results"]} / {fresh["verdict"]}')
                    traces.append(tr)
                divs = lockstep.lockstep_many(traces)
                for r, t in enumerate(traces):
                    if any(o[0] == 'reused-instance' for e in t['events'] for o in e.get('obs', [])):
                        rec['viol'].append(f'run {r}: a node object of an earlier invocation was reused (state on self leaks)')
                rec['runs'] = k
                rec['handles'] = sum(t['handles'] for t in traces)
                for r, d in enumerate(divs):
                    if d:
                        d['history_run'] = r
                        rec['div'] = d
                        rec['choices'] = [t['choices'] for t in traces]
                        rec['inputs'] = [t['inputs'][0] for t in traces]
                        break
            else:
                k = rng.randint(2, 4)
                inputs = [{'x': rng.choice(['v', 'w', '', 'u%d' % r])} for r in range(k)]
                cancel = rng.randrange(0, 40) if rng.random() < 0.3 else None
                pol = ER.Policy(random.Random(rng.randrange(1 << 30)), early_p=rng.choice([0.0, 0.3, 0.5]), cancel_at=cancel)
                tr = ER.run_program(spec, pol, n_runs=k, inputs=inputs)
                rec['runs'] = k
                rec['handles'] = tr['handles']
                rec['div'] = lockstep.lockstep_many([tr])[0]
                if any(o[0] == 'reused-instance' for e in tr['events'] for o in e.get('obs', [])):
                    rec['viol'].append('a node object was shared between overlapping runs (state on self leaks)')
                infrag, _ = fragment.in_fragment(tr['graph'])
                for r in range(k):
                    if cancel is not None and r == 0:
                        continue
                    # outcome of the run alone (any schedule: inside the fragment the outcome is schedule-independent)
                    if not infrag:
                        continue
                    solo = ER.run_program(spec, ER.Policy(random.Random(1), early_p=0.0), inputs=[inputs[r]])
                    if lockstep.outcome_str(solo['results'][0]) != lockstep.outcome_str(tr['results'][r]):
                        a, b = solo['results'][0], tr['results'][r]
                        # several independent required nodes failing: either error is legitimate (C05)
                        if not (a and b and a[0] == 'error' and b[0] == 'error'):
                            rec['viol'].append(f'run {r} of {k} overlapping runs gives {b}, alone it gives {a}')
                if rec['div'] or rec['viol']:
                    rec['choices'] = tr['choices']
                    rec['inputs'] = inputs
        except Exception as e:  # noqa
            rec['harness_error'] = repr(e)[:300]
        if not (rec['div'] or rec['viol'] or rec.get('viol_c03') or rec.get('harness_error')):
            rec.pop('spec')
        out.append(rec)
    return out


def main_for(pid, tier_):
    T = C.Timer()
    aud = C.audit(pid)
    rng = random.Random(C.seed() * 733 + int(pid[1:]))
    n = 2400 if tier_ == 'quick' else 16000
    profs = ('mixed', 'shared', 'oneof', 'mixed', 'rec', 'switch', 'shared', 'plain')
    cases = [(pid, rng.randrange(1 << 40), profs[i % len(profs)]) for i in range(n)]
    from . import mkcorpus
    for name in list(mkcorpus.CORPUS) + list(mkcorpus.MOTIFS):
        for _ in range(3 if tier_ == 'quick' else 12):
            cases.append((pid, rng.randrange(1 << 40), 'motif:' + name))
    chunks = [cases[i:i + 8] for i in range(0, len(cases), 8)]
    C.ensure_built()
    recs = []
    with mp.get_context('fork').Pool(sched.NPROC) as pool:
        for r in pool.imap_unordered(worker, chunks):
            recs += r
    herr = [r for r in recs if r.get('harness_error')]
    if len(herr) > max(3, len(recs) // 50):
        raise C.ToolFailure(f'{len(herr)} harness errors, e.g. {herr[0]["harness_error"]}')
    bad = [r for r in recs if r['div'] or r['viol']]
    cov = dict(aud)
    cov.update({
        'evaluations': sum(r.get('runs', 0) for r in recs), 'programs': len(recs),
        'distinct_nontrivial': len({r['pseed'] for r in recs if r.get('runs', 0) >= 2}),
        'loop_handles_compared': sum(r.get('handles', 0) for r in recs),
        'runs_per_chart': {str(k): sum(1 for r in recs if r.get('runs') == k) for k in range(2, 7)},
        'disagreements_checked': sum(1 for r in recs if r['div']), 'monitor_hits': sum(1 for r in recs if r['viol']),
        'rule': ('histories of 2–6 sequential runs on one chart object (mixed inputs, failures, 15 % cancelled), each run '
                 'lock-stepped against a fresh model instance + DAG / node-class / input-dict snapshots + same run on a fresh chart'
                 if pid == 'C07' else
                 '2–4 overlapping runs of one chart on one loop under interleaved schedules (30 % with run 0 cancelled), each '
                 'run\'s events replayed on its own fresh model instance + outcome vs. the solo run') +
                '; programs from all profiles; non-trivial = at least 2 runs; distinct by program seed',
        'samples': [{k: r.get(k) for k in ('mode', 'pseed', 'profile', 'runs', 'handles')} for r in recs[:3]],
    })
    if bad:
        v = [r for r in bad if r['viol']]
        r = min(v or bad, key=lambda x: len(x['spec']['nodes']))
        C.write_evidence(pid, tier_, 'proof', cov, T.s(), violations=len(bad))
        C.report_violation(pid, {'property': pid, 'kind': 'failing-history' if r['viol'] else 'correspondence-broken',
                                 'what': r['viol'] or 'a run of the history / of the overlapping set does not behave like a fresh '
                                         'instance of the model MLPE.Eng (no monitor of this property fails)',
                                 'spec': r['spec'], 'choices': r.get('choices'), 'inputs': r.get('inputs'), 'mode': r['mode'],
                                 'first_divergence': r['div'], 'pseed': r['pseed'], 'profile': r['profile'],
                                 'theorems_no_longer_tied': C.prop_theorems(pid)}, no_input=not r['viol'])
        return C.EXIT_VIOLATION
    C.write_evidence(pid, tier_, 'proof', cov, T.s(), assumptions=[
        'node classes are stateless (deterministic functions of their arguments)',
        'pool registries are process-wide singletons: modelled only as ready / not ready (C17)'])
    return C.EXIT_OK


def c03_histories(n):
    """C03's "never a value from another run": histories on one chart, arguments compared with a fresh chart"""
    rng = random.Random(C.seed() * 911 + 3)
    profs = ('rec', 'mixed', 'rec', 'shared', 'oneof', 'switch')
    cases = [('C07', rng.randrange(1 << 40), profs[i % len(profs)]) for i in range(n)]
    from . import mkcorpus
    for name in sorted(mkcorpus.MOTIFS):
        if name.startswith(('M29', 'M40')):       # the two-role and input-restarts motifs
            cases += [('C07', rng.randrange(1 << 40), 'motif:' + name) for _ in range(3)]
    chunks = [cases[i:i + 8] for i in range(0, len(cases), 8)]
    recs = []
    with mp.get_context('fork').Pool(sched.NPROC) as pool:
        for r in pool.imap_unordered(worker, chunks):
            recs += r
    bad = [r for r in recs if r.get('viol_c03')]
    stats = {'histories': len(recs), 'history_runs': sum(r.get('runs', 0) for r in recs),
             'history_harness_errors': sum(1 for r in recs if r.get('harness_error'))}
    return stats, bad


def replay(path):
    from . import engine_run as ER, lockstep
    sys.path.insert(0, str(C.REPO))
    doc = json.loads(open(path).read())
    spec = doc['spec']
    if doc.get('mode') == 'C08':
        tr = ER.run_program(spec, ER.ScriptPolicy(doc['choices']), n_runs=len(doc['inputs']), inputs=doc['inputs'])
        d = lockstep.lockstep_many([tr])[0]
        print(tr['results'], 'lock-step:', 'agrees' if not d else json.dumps(d)[:400])
        return 1 if d else 0
    w = ER.World(spec)
    bad = 0
    for r, (ch, ik) in enumerate(zip(doc['choices'], doc['inputs'])):
        tr = ER.run_program(spec, ER.ScriptPolicy(ch), world=w, keep_world=(r < len(doc['inputs']) - 1), inputs=[dict(ik)])
        d = lockstep.lockstep_many([tr])[0]
        print('run', r, tr['results'], 'lock-step:', 'agrees' if not d else json.dumps(d)[:300])
        bad |= bool(d)
    return 1 if bad else 0

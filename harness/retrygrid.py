"""C12 — retry / default policy: exhaustive grid of configurations × per-attempt outcome sequences,
run on the real engine (node in the middle of a pipeline, virtual clock), lock-stepped against the
engine model and compared with `Retry.run` (the function the C12 theorems are about)."""
import itertools
import json
import random
import sys

from . import common as C
from . import sched

ATTEMPTS = [None, 0, 1, 2, 3]
DELAYS = [None, 0, 1, 3]
EXCS = [None, [], ['E0'], ['E1'], ['E0', 'E2'], ['E2']]
CLASSES = ['E0', 'E1', 'E2', 'B0']
DFLT_RAISE = ['T0', 'E2', 'V0', 'E0']


def sequences(maxlen=4):
    out = []
    for n in range(0, maxlen):
        for pre in itertools.product(CLASSES, repeat=n):
            out.append(list(pre) + ['ok'])
    for pre in itertools.product(CLASSES, repeat=maxlen):
        out.append(list(pre))
    return out


def grid():
    for a in ATTEMPTS:
        for d in DELAYS:
            for e in EXCS:
                for ud in (False, True):
                    yield dict(attempts=a, delay=d, exceptions=e, use_default=ud)


def make_spec(cfg, seq, mode='coro', in_oneof=False, cb=None):
    from .mkcorpus import node, inp, spec
    fails = [[0, k + 1, cls] for k, cls in enumerate(seq) if cls != 'ok']
    n1 = node(1, [('a', inp(0))], fails=fails, mode=mode, **cfg)
    if in_oneof:
        sp = spec([node(0), n1, node(2), node(3, [('a', {'kind': 'oneof', 'cands': [1, 2]})])])
    else:
        sp = spec([node(0), n1, node(2, [('a', inp(1))])])
    if cb:
        sp['cb'] = cb
    return sp


def extract(tr, n=1):
    """what the real engine did for node n: events and final, in the vocabulary of Retry.run"""
    evs, final, kws = [], None, []
    last_err = None
    for e in tr['events']:
        for o in e.get('obs', []):
            if o[0] == 'body' and o[2] == n:
                evs.append(f'call {o[4]}')
                kws.append(json.dumps(o[5], sort_keys=True))
                final = None        # the outcome of an earlier attempt was a retry
            elif o[0] == 'default' and o[2] == n:
                evs.append('default')
                kws.append(json.dumps(o[3], sort_keys=True))
            elif o[0] == 'sleep':
                evs.append(f'sleep {int(o[1])}')
            elif o[0] == 'emit' and o[1] == 'ncomplete' and o[3] == n:
                if o[4] is None:
                    final = 'default' if evs and evs[-1] == 'default' else 'value'
                else:
                    last_err = o[4]
                    final = 'failed ' + f'{o[4][0]}@{o[4][1]}.{o[4][2]}.{o[4][3]}'
        for idx, st, *_ in e.get('done', []):
            # a BaseException outside Exception ends the node's task without on_node_complete
            if st[0] == 'exc' and st[1][0] == 'B0' and st[1][1] == n and final is None:
                final = 'failed ' + f'{st[1][0]}@{st[1][1]}.{st[1][2]}.{st[1][3]}'
    # a retried attempt leaves final = failed <that error>; a later call resets it
    return evs, final, kws


def worker(chunk):
    from . import engine_run as ER, lockstep
    sched._init_worker()
    out = []
    traces, metas = [], []
    for cfg, seq, mode, oneof, pseed in chunk:
        sp = make_spec(cfg, seq, mode, oneof,
                       cb={'ncomplete': {'1': 1}} if pseed % 5 == 0 else None)
        tr = ER.run_program(sp, ER.Policy(random.Random(pseed), early_p=0.0))
        traces.append(tr)
        metas.append((cfg, seq, mode, oneof, sp))
    divs = lockstep.lockstep_many(traces)
    model = C.run_driver(['retry'], [json.dumps({'cfg': m[4]['nodes'][1], 'outcomes': m[1]}) for m in metas])
    for tr, div, m, mo in zip(traces, divs, metas, model):
        mo = json.loads(mo)
        evs, final, kws = extract(tr)
        want = [e for e in mo['events'] if e != 'sleep 0']
        viol = []
        if evs != want:
            viol.append(f'attempt/sleep/default sequence {evs} differs from the policy {want}')
        if final != mo['final']:
            viol.append(f'node result kind {final} differs from the policy {mo["final"]}')
        if len(set(kws)) > 1:
            viol.append(f'arguments differ between attempts / default: {sorted(set(kws))}')
        rec = {'cfg': m[0], 'seq': m[1], 'mode': m[2], 'oneof': m[3], 'div': div, 'viol': {'C12': viol} if viol else {},
               'handles': tr['handles'], 'final': mo['final'], 'ncalls': sum(1 for e in want if e.startswith('call'))}
        if div or viol:
            rec['spec'] = m[4]
            rec['choices'] = tr['choices']
        out.append(rec)
    return out


def main(tier_):
    import multiprocessing as mp
    T = C.Timer()
    aud = C.audit('C12')
    rng = random.Random(C.seed() * 977 + 12)
    cases = []
    seqs = sequences(4)
    full = [(cfg, seq) for cfg in grid() for seq in seqs]
    exhaustive = tier_ == 'thorough'
    if not exhaustive:
        # sample uniformly over (configuration, length of the failing prefix, success/failure at the end)
        cfgs = list(grid())
        bylen = {}
        for sq in seqs:
            bylen.setdefault((len(sq), sq[-1] == 'ok'), []).append(sq)
        keys = sorted(bylen)
        full = [(rng.choice(cfgs), rng.choice(bylen[rng.choice(keys)])) for _ in range(6000)]
        # a get_default that fails itself (an engine-defined error class or a builtin one)
        full = [(dict(cfg, dflt_raise=rng.choice(DFLT_RAISE)) if cfg['use_default'] and rng.random() < 0.3 else cfg, seq)
                for cfg, seq in full]
    else:
        extra = [(dict(cfg, dflt_raise=DFLT_RAISE[(i + len(seq)) % len(DFLT_RAISE)]), seq)
                 for i, (cfg, seq) in enumerate(full) if cfg['use_default']]
        full = full + extra
    for i, (cfg, seq) in enumerate(full):
        mode = 'inline' if i % 4 == 1 else 'coro'
        cases.append((cfg, seq, mode, i % 7 == 3, rng.randrange(1 << 30)))
    chunks = [cases[i:i + 60] for i in range(0, len(cases), 60)]
    C.ensure_built()
    ctx = mp.get_context('fork')
    recs = []
    with ctx.Pool(sched.NPROC) as pool:
        for r in pool.imap_unordered(worker, chunks):
            recs += r
    # the policy inside arbitrary pipelines: retry-heavy general programs (arguments must not change between attempts
    # even when the sources are re-executed by a recurrent subgraph meanwhile)
    gen = sched.general_items(C.seed(), 900 if tier_ == 'quick' else 9000, tier_,
                              profiles=('rec', 'shared', 'mixed', 'plain'), monitors_=['C12'], enum_limit=8)
    for it in gen:
        it['retry_p'] = 0.9
        it['fail_p'] = 0.45
    gen = sched.corpus_items(['C12']) + gen
    grecs = [r for r in sched.run_items(gen) if 'harness_error' not in r]
    bad = [r for r in recs if r['div'] or r['viol']] + [r for r in grecs if r['div'] or r['viol']]
    finals, ncalls = {}, {}
    for r in recs:
        k = r['final'].split()[0]
        finals[k] = finals.get(k, 0) + 1
        ncalls[r['ncalls']] = ncalls.get(r['ncalls'], 0) + 1
    cov = dict(aud)
    cov.update({
        'evaluations': len(recs), 'programs': len(recs),
        'distinct_nontrivial': len({json.dumps([r['cfg'], r['seq']]) for r in recs if len(r['seq']) > 1}),
        'exhaustive': exhaustive,
        'rule': 'grid attempts∈{None,0,1,2,3} × delay∈{None,0,1,3} × exceptions∈{None,(),(E0,),(E1,),(E0,E2),(E2,)} × '
                'use_default (× a get_default that raises: ' + ('every use_default case once more' if exhaustive else '30 % of the use_default cases') + ') × all outcome sequences of length ≤ 4 over {E0,E1<:E0,E2,B0<:BaseException,ok} '
                f'({"complete" if exhaustive else "6000 sampled cases"}); node under test in the middle of a pipeline '
                '(every 7th inside a one-of candidate, every 4th inline, every 5th with a suspending on_node_complete); '
                'virtual clock; non-trivial = at least one failing attempt',
        'traces_validated_against_impl': len(recs) - sum(1 for r in recs if r['div']),
        'disagreements_checked': sum(1 for r in recs if r['div']),
        'by_policy_result': finals, 'by_number_of_invocations': ncalls,
        'general_pipeline_traces': len(grecs), 'general_pipeline_handles': sum(r['handles'] for r in grecs),
        'samples': [{k: r[k] for k in ('cfg', 'seq', 'mode', 'oneof', 'final')} for r in recs[:3]],
    })
    from . import findings
    code, nviol = findings.decide('C12', bad, {})
    C.write_evidence('C12', tier_, 'proof', cov, T.s(), violations=nviol, assumptions=[
        'exceptions ⊆ Exception as the type annotation says (a BaseException listed there would be retried)',
        'attempts ≥ 0 (a negative value never terminates in the code; outside the annotated domain)'])
    return code


replay = sched.replay

"""Regenerate MANIFEST.json from the table below (run by hand: python3 -m harness.gen_manifest)."""
import json
from pathlib import Path

VERIF = Path(__file__).resolve().parent.parent

BASELINE = ("cd /repo && /venv/bin/python -m pytest -ra -q -p no:cacheprovider --timeout=900 "
            "--continue-on-collection-errors")

# id -> (technique, level text, level note, design ref)
CLAIMED = {
    'C18': (
        'Lean 4 refinement proof (model refines write-once map) + differential correspondence on op sequences',
        'Proof: MLPE.Store (model of FileSystemArtifactStore after the fix commit) refines a write-once finite map keyed by '
        '(model, pipeline, node id) for every operation sequence, every id string and every codec with a round trip '
        '(C18_refines_map and the clause corollaries). Tie: every run executes generated save/load histories on the real '
        'store in a scratch directory and on the model and compares every result.',
        'Trusted: Lean kernel (+propext, Classical.choice, Quot.sound); the hand-written model; the sampled correspondence; '
        'pickle/json round trip is a hypothesis (sampled); pathlib/OS file semantics modelled as a finite map.',
        '§6 C18'),
}

ALL = [f'C{i:02d}' for i in range(1, 21)]
PENDING_REASON = 'check not built yet at this commit (work in progress; see DESIGN.md §9.1 build order) — not a claim that the technique cannot apply'


def main():
    checks = []
    for pid, (tech, text, note, ref) in sorted(CLAIMED.items()):
        checks.append({
            'property_id': pid,
            'quick_cmd': f'./check {pid} --tier quick',
            'thorough_cmd': f'./check {pid} --tier thorough',
            'evidence_file': f'/verif/evidence/{pid}.json',
            'replay_cmd_template': './check replay {path}',
            'engine': 'lean4-proof+correspondence',
            'level_claimed': {'category': 'proof', 'text': text, 'design_ref': ref},
            'level_note': note,
            'technique': tech,
        })
    man = {
        'version': 1,
        'setup_cmd': 'cd lean && lake build',
        'hooks': {
            'guard': 'MLPE_VERIF',
            'enable': 'no hooks inside /repo: all instrumentation is harness-side (stepping event loop, recording '
                      'collaborators); MLPE_VERIF=1 is exported by ./check for the harness only',
            'baseline_off_cmd': BASELINE,
            'source_commits': [],
            'add_only': True,
        },
        'engines': [{
            'name': 'lean4-proof+correspondence', 'path': '/verif/lean + /verif/harness',
            'serves_properties': sorted(CLAIMED),
            'kind_free_text': 'Lean 4 theorems about hand-written executable models; native Lean driver run in lock-step / '
                              'differentially against the real code from /repo on every check',
        }],
        'checks': checks,
        'not_applicable': [{'property_id': p, 'reason': PENDING_REASON} for p in ALL if p not in CLAIMED],
        'notes': 'See DESIGN.md. Exit codes: 0 held, 1 VIOLATION, 2 tool failure.',
    }
    (VERIF / 'MANIFEST.json').write_text(json.dumps(man, indent=1, ensure_ascii=False) + '\n')


if __name__ == '__main__':
    main()

"""Regenerate MANIFEST.json from the table below (run by hand: python3 -m harness.gen_manifest)."""
import json
from pathlib import Path

VERIF = Path(__file__).resolve().parent.parent

BASELINE = ("cd /repo && /venv/bin/python -m pytest -ra -q -p no:cacheprovider --timeout=900 "
            "--continue-on-collection-errors")

# id -> (technique, level text, level note, design ref)
SCHED_NOTE = ('Trusted: Lean kernel (+propext, Classical.choice, Quot.sound); the hand-written model MLPE.Eng of manager.py / '
              'storage.py / graph.py / chart.py (all constructs, suspending collaborators, cancellation); the sampled lock-step '
              'correspondence (every loop handle of every explored trace compared); asyncio facts A1–A7 (DESIGN §1.2); the launch '
              'order of nx.topological_sort is an oracle input validated by the model; real thread/process timing is not modelled.')
SCHED_TIE = (' Tie: every run drives the real engine from /repo on a hand-stepped event loop over generated programs × schedules '
             '(run-to-quiescence, early injections and bursts, all quiescent orders of small programs, corpus of past defects) and '
             'replays each trace handle by handle on the model (lock-step); the property monitors (Lean Sem as oracle inside the '
             'fragments) turn a broken tie into a concrete failing input.')


def sched(text, ref):
    return ('Lean 4 theorems about the executable engine model MLPE.Eng + lock-step correspondence with the real engine',
            text + SCHED_TIE, SCHED_NOTE, ref)


CLAIMED = {
    'C01': sched('Proof (plain pipelines, full strength on the model): for every solution val of the dataflow equations of the '
                 'pipeline (node value = retry/default policy applied to the body on the values of its declared sources; a solution '
                 'exists for every acyclic pipeline, solution_exists) and every execution — any interleaving, completion order, '
                 'launch order, cancellation point — a returned value is val(output) (C01_plain_value), a reported error is the '
                 'policy\'s failure of a node of the pipeline (C01_plain_error / _raised), CancelledError only on request, two '
                 'executions never return different values nor one a value and the other an error (C01_plain_values_agree, '
                 'C01_plain_value_excludes_failure). From the inductive invariant PInv with value tracking (Att, agree_of_nodes). '
                 'The driver checks on every generated plain program that the theorem hypotheses hold and that the reference '
                 'evaluator Sem is a solution. Switch pipelines (any nesting / sharing, no one-of / recurrent), all schedules, safety: a '
                 'returned value is the dataflow value of the output for every solution of the equations with switches, two runs never '
                 'return different values, no value is returned when the output has none (C01_switch_*, from the frame-local invariant '
                 'SInv of Proofs/Safe.lean); termination is not a theorem there. Partial for one-of / recurrent shapes: Sem is compared '
                 'with the real outcome and every node invocation by the monitors inside the fragments; no theorem there.', '§6 C01'),
    'C02': sched('Proof (plain pipelines, full strength on the model): for every pipeline of Input dependencies (any size / shape, '
                 'any retry / default / mode settings, failures anywhere, collaborators that do not suspend), under every interleaving '
                 'of task sections, every completion order of bodies and timers, every topological launch order and cancellation of '
                 'the caller at any point, while the run is pending the deadlock / lost-wake-up state is unreachable '
                 '(C02_plain_no_stuck_state, from the inductive invariant PInv: every blocked waiter\'s predicate is false, the '
                 'launcher has created tasks for a prefix of the launch order, nobody is cancelled). Proof (pipelines with switches, on '
                 'the model): for every program that satisfies LiveP (switches only — nested, shared cases, cases computed before the '
                 'decision; collaborators that may raise but do not suspend; the executable check livePB implies it and is evaluated '
                 'on every generated program), in every state reached before chart.run returns some task is runnable or a body / '
                 'timer is outstanding, under every interleaving, completion order and admissible launch order '
                 '(C02_switch_no_stuck_state, from the invariant Struct: no lost wake-up through switch nodes). For all programs: '
                 'a finishing node and a returning switch wake every consumer. Partial for one-of / '
                 'recurrent shapes and suspending collaborators in switch pipelines: there the exact deadlock verdict of the stepping loop is compared with the model on every '
                 'explored trace and the past deadlocks are regression programs, and random walks through the model\'s own schedule space '
                 '(all interleavings, not only asyncio\'s FIFO order) look for stuck model states on the graphs the real builder '
                 'produces — but stuck-freedom is not a theorem there.', '§6 C02'),
    'C06': sched('Proof (plain pipelines, on the model): in every idle state of a pending run (nothing can run until a body or timer '
                 'completes) every node whose lower depths have all completed has been started, whatever its siblings are doing and '
                 'whatever the execution modes (C06_plain_next_depth_started, C06_plain_siblings_together, from PInv). Hypothesis '
                 'LaunchByDepth (the list _get_node_order returns is sorted by depth) is checked on every list the real code '
                 'returns; the conclusion is monitored on schedules that hold all running bodies open and release one at a time.',
                 '§6 C06'),
    'C03': sched('Proof (plain pipelines, all schedules): every body invocation of a pending run gets exactly the dataflow values of '
                 'its declared sources, all of which exist, never a failure object or Recurrent marker '
                 '(C03_plain_invocation_arguments); an exception object stored by a one-of scope fails the consumer instead of being '
                 'passed on (C03_exception_value_fails_consumer, all programs). Switch pipelines, all schedules: every observed body call '
                 'has exactly the dataflow values as arguments — for a switch parameter the selected case\'s value — and every stored '
                 'result is final (C03_switch_body_arguments, C03_switch_results_final). All programs, all schedules, the shape of the '
                 'arguments (Proofs/KwArgs.lean, Proofs/Budget.lean): every body call, retry and get_default of every execution gets '
                 'exactly one keyword argument per declared parameter (additional_data at most in addition), never an exception object '
                 'as a declared parameter\'s value, and the input node gets exactly the caller\'s input_kwargs '
                 '(C03_every_body_call_gets_the_declared_parameters, C03_input_node_gets_the_callers_kwargs). General, local tier: in the model a node is launched only in a section where `ready` holds — every '
                 '(resolved) source has a stored, visible, non-Recurrent result — and its kwargs are exactly the stored results '
                 'of its sources under the declared names; the input node gets the caller\'s kwargs (C03_* in Props/C03.lean, all '
                 'programs, all states). That stored results are final is C01\'s invariant (partial: tied and monitored against Sem '
                 'inside the fragments, not yet a theorem).', '§6 C03'),
    'C04': sched('Proof (full strength on the model): for every program with any mix of constructs and every interleaving, in every '
                 'reachable state executions(n) ≤ 1 + hides(n) (C04_at_most_once_per_iteration, invariant proved by induction over '
                 'all choice sequences); a second request takes the waiting path; consumers read the single stored result.',
                 '§6 C04'),
    'C05': sched('Proof (plain pipelines, all schedules): an error verdict is the retry/default policy\'s failure of a node of the pipeline '
                 'whose sources all had values (C05_plain_error_is_a_required_node_failure) and a failing node is never masked by a '
                 'value (C05_plain_failure_is_never_masked). Switch pipelines, all schedules: an error outcome is the final failure of a '
                 'node on its dataflow arguments, a collaborator\'s exception, the no-case error of a switch whose decision names no '
                 'case, or a setup error; no value when the output has none (C05_switch_*). General, local tier: the outcome computed by manager.run/chart.run is the exception of a *finished, '
                 'non-cancelled* engine task (wrapped iff it is an Exception) or, when no task failed, the stored output value '
                 '(C05_* in Props/C05.lean). Partial: that a task fails only if a required node failed is tied by lock-step and '
                 'monitored against Sem in the fragments.', '§6 C05'),
    'C07': ('Lean 4 theorems (the model has no state that survives a run) + lock-step of histories against fresh model instances',
            'Proof: in the engine model every run starts from the constant Eng.init and a step is a pure function of the program and '
            'the run\'s own state (C07_*): by construction the k-th run of a history is a first run. The statement is simple because the '
            'model has no chart-level mutable state — that the code is like that (after the fix commits for one-of / recurrent state '
            'on the shared graph) is established by the tie: histories of 2–6 sequential runs on one chart object, each lock-stepped '
            'against a fresh model instance, with deep snapshots of DAG, node classes, input dict, pool shutdown between runs, and the '
            'same run repeated on a fresh chart.', SCHED_NOTE, '§6 C07'),
    'C08': ('Lean 4 non-interference theorem over the product of run models + per-run lock-step of overlapping runs',
            'Proof: overlapping runs are the product of independent model instances; a step of run i leaves every other run\'s state '
            'untouched and the projection of any interleaved execution onto a run is an execution of that run alone '
            '(C08_projection_is_solo_run, by induction over all interleavings). Tie: 2–4 overlapping runs of one chart on one loop '
            '(one possibly cancelled); each run\'s events are replayed on its own fresh model instance, so any influence of another '
            'run is a divergence; outcomes compared with solo runs.', SCHED_NOTE, '§6 C08'),
    'C09': sched('Proof (switch pipelines — any nesting, shared cases and deciders, cases that are also ordinary dependencies; no '
                 'one-of / recurrent — all schedules, safety): in every reachable state the recorded decision of a switch is the '
                 'declared case of the label its decision node has in the dataflow semantics, the switch\'s value is that case\'s '
                 'value, and every stored result, body argument, saved value, reported and returned outcome is the semantic one '
                 '(C09_switch_decision_is_semantic, _results_agree, _invocation_arguments, _observations, _returned_value, '
                 '_error_has_cause; invariant SInv of Proofs/Safe.lean, preserved by every handler of manager.py\'s coroutines; '
                 'collaborators may suspend and raise). The driver evaluates the hypotheses (SwP, SolutionSw of the eager values, '
                 'agreement with Sem) on every generated switch-only program. General, local tier (all programs): _run_switch selects '
                 'exactly a declared case whose label is the stored result of the decision node, an unmatched label wakes run() and '
                 'fails with SwitchNoCase, case edges are invisible in every reduced DAG (C09_*). Laziness is part of the invariant: a node '
                 'that has been started is needed — the output, a source of a needed node, the decision node or the selected case of a '
                 'needed switch (C09_switch_only_needed_nodes_run, C09_switch_unneeded_node_never_runs; hypothesis: launch orders are '
                 'topological orders of their DAGs, checked on every order the real code returns; Proofs/GraphReach.lean proves the '
                 'path property of reduced DAGs it rests on). Partial: termination under all schedules is tied and monitored, not a '
                 'theorem; shapes with one-of / recurrent subgraphs rest on the tie (trace-only routing monitor everywhere, Sem inside '
                 'the fragment).', '§6 C09'),
    'C10': sched('Proof (pipelines with switches and one-ofs in any nesting, no recurrent subgraph; all schedules; safety): for every '
                 'solution of the dataflow equations in which a one-of has the value of the first candidate, in declared order, that '
                 'has one, in every reachable state the value stored for a one-of head is that candidate\'s value '
                 '(C10_head_value_is_first_success), a failure stored inside a one-of scope belongs to a node without a value and is '
                 'never passed to a body (C10_contained_failure_has_no_value, C10_body_arguments), every stored / saved / returned '
                 'value is the semantic one, an error outcome has a cause (OneOfDoesNotHaveResultError: no candidate has a value), and '
                 'a started node is needed — a candidate only if all earlier candidates of its one-of have no value '
                 '(C10_only_needed_nodes_run). From the frame-local invariant of Proofs/Safe.lean; key lemma hasError_none (an '
                 'exception anywhere in a candidate\'s reduced DAG means the candidate has no value), which rests on path soundness '
                 'of reduced DAGs (Proofs/GraphReach.lean) and was false before repo fix cd71782. Hypotheses: OneP (structural; its '
                 'Boolean form is evaluated by the driver on every generated program and holds on 98 % of the one-of programs) and '
                 'SolutionOne (incl. the input node has a value). General, local tier (all programs): candidates are opened and '
                 'started strictly in declared order, the next only after a recorded failure, none after a success; the edge from a '
                 'candidate to its one-of is not part of any reduced DAG; exhaustion yields OneOfDoesNotHaveResultError, contained when nested (C10_*). Partial: '
                 'termination, and the shapes with recurrent subgraphs, are tied and monitored, not theorems.', '§6 C10'),
    'C11': sched('Proof (all programs, all schedules, on the model): in every reachable state a node whose execution was ever '
                 'invalidated (hide_last_execution) belongs to the subgraph start → dest of a RecurrentSubGraph mark, so a node '
                 'outside every recurrent subgraph is executed at most once in a run (C11_only_subgraph_nodes_are_invalidated, '
                 'C11_outside_nodes_run_at_most_once; invariant RX of Proofs/RecScope.lean, one lemma per handler, no hypothesis '
                 'on the program). Proof (general, local to _run_recurrent_subgraph): iteration k runs only if k < max_iterations and hands the data to '
                 'the start node; exhaustion gives default iff opted in else the recurrent error; a Recurrent result never unlocks '
                 'consumers; re-execution needs a hide (with C04); a restart forgets the decisions of the switches it invalidates, '
                 'their consumers wait for the new decision, and the DAG of an iteration consists of scope nodes the destination '
                 'needs through ordinary edges (cases and one-of candidates run lazily; repo fix 12d4978); a restart only marks '
                 'the nodes, a DAG that starts hides exactly its marked nodes, nodes nobody needs again keep their results (35c5865); '
                 'a Recurrent result starts the loop only if it is not running (32b070f) (C11_*). Partial: '
                 'consumers-see-final-only under all schedules is tied and monitored (private subgraphs; switches and one-ofs '
                 'inside the subgraph are inside the monitored fragment).', '§6 C11'),
    'C12': ('Lean 4 proof of the retry loop specification + lifting lemmas into the engine model; exhaustive-grid correspondence',
            'Proof (full strength): Retry.run — the attempt loop of __execute_node with NodeRetryPolicy defaults — invokes the body '
            'exactly m = min(first non-retryable-or-success, attempts) times, sleeps `delay` between attempts, and yields value / '
            'default / last exception as specified, for every configuration and every outcome sequence (C12_spec, C12_stops, …); '
            'the engine model applies exactly these decisions for any node in any pipeline (C12_engine_*); in switch / plain '
            'pipelines under all schedules every observed body call is within the budget and follows only retryable failures, and '
            'get_default is computed only when the policy ends in the default (C12_switch_attempts); the default is computed by one '
            'call of get_default on the arguments of the attempts — its value is the node\'s value (C12_engine_default_value), and '
            'when get_default itself raises that exception is the node\'s failure, reported and contained like a failure of the body '
            '(C12_engine_default_raises; Program.dfltRaise). All programs, all schedules (Proofs/Budget.lean): every body call any '
            'execution observes is attempt k with 1 ≤ k ≤ attempts, get_default is called only for nodes with use_default, a task '
            'sleeping before a retry has attempts left (C12_every_body_call_is_within_the_budget, '
            'C12_default_only_for_nodes_that_opt_in, C12_sleeping_task_has_attempts_left). Tie: the whole grid of '
            'configurations × outcome sequences (≤4), with returning and raising get_default, runs on the real engine with a '
            'virtual clock and is compared with Retry.run; '
            'retry-heavy general pipelines are lock-stepped and monitored (same arguments on every attempt).',
            SCHED_NOTE + ' exceptions ⊆ Exception and attempts ≥ 0 as annotated.', '§6 C12'),
    'C13': sched('Proof (general, local tier): manager.run\'s cleanup leaves every other task finished or cancel-marked, on normal end, '
                 'error, and caller cancellation; a cancel-marked task\'s next section ends it silently (only its own `done`, no new '
                 'task); marks are stable; caller cancellation surfaces as CancelledError only (C13_*). All programs, all continuations: '
                 'once manager.run has left, every further step of any task, body, timer or canceller creates no task and reports '
                 'nothing but task endings (C13_after_cleanup_nothing_starts, C13_after_return_nothing_ever_starts, by induction over '
                 'the continuation); in such a state the section of a task ends it and finished tasks are never stepped again, so every '
                 'task runs at most one more section (C13_section_after_the_end_finishes_its_task). Tie additionally cancels the '
                 'caller before every loop handle of a base schedule per program and drains the loop afterwards.', '§6 C13'),
    'C14': sched('Proof (general, local tier): on_pipeline_start first; on_pipeline_complete carries the returned outcome; a node '
                 'execution starts with on_node_start in the section that marks it processed; one on_node_complete per raising '
                 'attempt, error=None iff a value/default; the value is stored strictly after the successful on_node_complete '
                 'returned, even when callbacks suspend (C14_*). Switch / plain pipelines, all schedules: success is reported only for a '
                 'node that has a value, a reported error is one the body raised on its declared arguments or a collaborator\'s, the '
                 'reported outcome is justified (C14_switch_reports_are_truthful). All programs, all schedules (Proofs/Ledger.lean, an '
                 'accounting invariant over the observation log and the frames of all suspended tasks): every successful '
                 'on_node_complete(n) is paid for by an on_node_start(n) of its own, and on_node_start is emitted exactly as often as '
                 'the storage counts invocations — with C04 / C11 at most once per node outside recurrent subgraphs '
                 '(C14_one_success_per_start); on_pipeline_start is the first observation of every execution and occurs at most once, '
                 'on_pipeline_complete at most once for an event manager that does not raise in it '
                 '(C14_pipeline_start_first_and_once, C14_pipeline_complete_at_most_once; with C13 nothing but task endings '
                 'follows the return). The relative order of the events of different nodes is tied, not a theorem.', '§6 C14'),
    'C15': ('Lean 4 proof about the worklist builder model (closure of the traversal, per-mark contributions) + differential correspondence',
            'Proof: Builder.build — the model of build_dag with its real LIFO worklist and per-mark graph construction — visits exactly '
            'the declared nodes the output can reach (completeness and soundness of the worklist, any size/shape), contains for every '
            'mark of every such node its declared dependency edges (no parameter dropped), links mark-less nodes to the input, and its '
            'node map resolves every id to a declaration with that id (C15_*). Attribute merging of parallel parameters is a listed '
            'finding with a witness theorem. Tie: every run builds generated declaration sets (all mark kinds, reused marks, unnamed '
            'switches, build_node generics, 4 modes) with the real build_dag and compares nodes, edges, all attributes, node map and '
            'pool flags with the model.',
            'Trusted: Lean kernel (+propext, Classical.choice, Quot.sound); the hand-written model of builder.py; the sampled differential; '
            'get_node_id / inspect behave as generated.', '§6 C15'),
    'C16': ('Lean 4 proof about the builder model (every reachable defect is fatal and specific; defect-free sets build) + differential',
            'Proof: for every well-formed declaration set, a defect of the per-node validators at any node the output can reach makes '
            'build fail (C16_defective_declaration_rejected) with the error of a reachable defective node or a recurrent '
            'post-validation error (C16_error_is_specific); a recurrent destination without the protocol / a start node without '
            'additional_data are rejected; defect-free sets build (C16_valid_declarations_build). Tie: every valid generated set and '
            'single-defect mutations (8 kinds, any reachable placement) through the real build_dag, error class compared.',
            'Trusted: as C15; how a Python object comes to lack a base / process / annotation is generated, not modelled.', '§6 C16'),
    'C20': ('Lean 4 proof about the viewer projection model + differential correspondence on every buildable generated pipeline',
            'Proof (full strength on the model): Viewer.config yields exactly one entry per DAG node in order, virtual + prefix-typed '
            'for synthetic nodes and carrying the declared data for real ones, exactly one edge entry per dependency with the same '
            'endpoints and unique ids, and a type table covering every occurring type; it is a function (cannot modify its input) '
            '(C20_*). Tie: GraphConfigImpl.generate(...).as_dict() → json vs the model on every buildable generated pipeline incl. '
            'custom / missing node types and generics; DAG snapshot before/after.',
            'Trusted: Lean kernel (+propext, Classical.choice, Quot.sound); the hand-written model of visualization/dag.py; inspect-derived '
            'strings are opaque inputs; importlib_resources / distutils are stubbed (only copy_resources uses them).', '§6 C20'),
    'C17': ('Lean 4 theorems (Sem ignores modes; the engine model differs between modes only in suspension; missing pool fails fast) '
            '+ lock-step under mode assignments and pool states + real-pool differential',
            'Proof: the specification Sem yields the same outcome under every assignment of execution modes '
            '(C17_semantics_ignores_mode, by induction through the evaluator); in the engine model the mode decides only whether the task '
            'suspends while the body runs — the outcome handed to the retry policy is the same (C17_mode_changes_only_the_suspension); a '
            'needed pool that is not ready makes the run end with an error result before anything is spawned '
            '(C17_missing_pool_fails_fast). Partial: engine outcome = Sem for all modes is C01 (tied and monitored, not yet a theorem). '
            'Tie: 4 mode assignments per program on virtual executors in lock-step, 5 broken pool-registry states (also after a good '
            'run), and REAL thread/process pools whose outcome is compared with Sem (that last part is differential testing).',
            SCHED_NOTE, '§6 C17'),
    'C18': (
        'Lean 4 refinement proof (model refines write-once map) + differential correspondence on op sequences',
        'Proof: MLPE.Store (model of FileSystemArtifactStore after the fix commit) refines a write-once finite map keyed by '
        '(model, pipeline, node id) for every operation sequence, every id string and every codec with a round trip '
        '(C18_refines_map and the clause corollaries). Tie: every run executes generated save/load histories on the real '
        'store in a scratch directory and on the model and compares every result.',
        'Trusted: Lean kernel (+propext, Classical.choice, Quot.sound); the hand-written model; the sampled correspondence; '
        'pickle/json round trip is a hypothesis (sampled); pathlib/OS file semantics modelled as a finite map.',
        '§6 C18'),
    'C19': sched('Proof (general, local tier): the model calls the artifact store only in nodePost, iff the task executed the node '
                 'itself and the result is a real value (never a Recurrent marker, a contained failure or a duplicate), with the value '
                 'just stored (C19_*). Switch / plain pipelines, all schedules: every value handed to the store in any execution is the '
                 'node\'s final dataflow value — the one its consumers receive — never a marker or an exception object '
                 '(C19_switch_saved_value_is_final, C19_switch_saves_agree). All programs, all schedules (Proofs/Ledger.lean): in every '
                 'execution saves(n) ≤ successful completions(n) ≤ starts(n) = invocations(n) — each save is paid for by an execution '
                 'of its own that reported success; with C04 saves(n) ≤ 1 + invalidations(n), and a node outside every recurrent '
                 'subgraph is saved at most once per run, whoever requests it (C19_each_save_has_its_own_successful_execution, '
                 'C19_at_most_one_save_outside_recurrent_subgraphs). At-least-once (every executed node of a successful run is '
                 'saved) is tied, not a theorem; a node is executed once its successful on_node_complete has been delivered — a node whose '
                 'task is cancelled by the end of the run while that announcement is still suspended in an event manager never '
                 'stored or delivered a value and has nothing to save (decided from the trace: second manager not told, task '
                 'cancelled, no consumer started). '
                 'Recurrent re-iterations re-save inner nodes: listed finding. A save still suspended when chart.run ends is '
                 'cancelled with its node task (the result is stored before the save is awaited): listed finding save_cut_off, '
                 'excused only at that call site.', '§6 C19'),
}

ALL = [f'C{i:02d}' for i in range(1, 21)]
PENDING_REASON = 'check not built yet at this commit (work in progress; see DESIGN.md §9.1 build order) — not a claim that the technique cannot apply'


def main():
    checks = []
    for pid, (tech, text, note, ref) in sorted(CLAIMED.items()):
        checks.append({
            'property_id': pid,
            'quick_cmd': f'./check {pid} --tier quick',
            'thorough_cmd': f'./check {pid} --tier thorough',
            'evidence_file': f'/verif/evidence/{pid}.json',
            'replay_cmd_template': './check replay {path}',
            'engine': 'lean4-proof+correspondence',
            'level_claimed': {'category': 'proof', 'text': text, 'design_ref': ref},
            'level_note': note,
            'technique': tech,
        })
    man = {
        'version': 1,
        'setup_cmd': 'cd lean && lake build',
        'hooks': {
            'guard': 'MLPE_VERIF',
            'enable': 'no hooks inside /repo: all instrumentation is harness-side (stepping event loop, recording '
                      'collaborators); MLPE_VERIF=1 is exported by ./check for the harness only',
            'baseline_off_cmd': BASELINE,
            'source_commits': [],
            'add_only': True,
        },
        'engines': [{
            'name': 'lean4-proof+correspondence', 'path': '/verif/lean + /verif/harness',
            'serves_properties': sorted(CLAIMED),
            'kind_free_text': 'Lean 4 theorems about hand-written executable models; native Lean driver run in lock-step / '
                              'differentially against the real code from /repo on every check',
        }],
        'checks': checks,
        'not_applicable': [{'property_id': p, 'reason': PENDING_REASON} for p in ALL if p not in CLAIMED],
        'notes': 'See DESIGN.md. Exit codes: 0 held, 1 VIOLATION, 2 tool failure.',
    }
    (VERIF / 'MANIFEST.json').write_text(json.dumps(man, indent=1, ensure_ascii=False) + '\n')


if __name__ == '__main__':
    main()

#!/bin/bash
# usage: matrix.sh <out-file> <mutant> [check ids...] — apply a seeded change in a scratch worktree, run the checks against it
# (MLPE_REPO points the harness at the worktree; /repo itself is not touched)
OUT="$1"; M="$2"; shift 2
WT=${MX_WT:-/tmp/mx_wt}
cd /verif || exit 2
if [ ! -d $WT ]; then git -C /repo worktree add --detach $WT HEAD -f >/dev/null 2>&1; fi
git -C $WT checkout -q -- . && git -C $WT clean -fdq
git -C $WT checkout -q --detach $(git -C /repo rev-parse HEAD) 2>/dev/null
git -C $WT apply /verif/seeded/$M/patch.diff || { echo "$M: patch does not apply" >> $OUT; exit 0; }
for id in "$@"; do
  L=$(MLPE_NO_EVIDENCE=1 MLPE_REPO=$WT timeout 1500 ./check "$id" --tier quick 2>&1 | grep -E "^VIOLATION|TOOL-FAILURE" | head -2 | tr '\n' ' ')
  rc=$?
  R=$(echo "$L" | grep -o "replay=[^ ]*" | head -1 | cut -d= -f2)
  K=""
  if [ -n "$R" ] && [ -f "$R" ]; then K=$(/venv/bin/python -c "import json,sys;d=json.load(open('$R'));print(d.get('kind'),'|',str(d.get('what'))[:160].replace(chr(10),' '))"); fi
  echo "$M $id :: ${L:-held} :: $K" >> $OUT
done
git -C $WT checkout -q -- . && git -C $WT clean -fdq

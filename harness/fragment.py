"""Shape predicates on the REAL built graph (the dump of engine_run.World.graph).

The fragments are where the functional theorems / monitors apply (DESIGN.md §6):
  plain   : no switch, one-of or recurrent attribute anywhere
  Sw      : switch case nodes are private (their only successor is the switch node)
  One     : one-of candidates are private (only successor: the head) and no switch node feeds a candidate
  Rec     : nodes strictly inside a recurrent subgraph are read only from inside it, the destination has
            one consumer, subgraphs are pairwise disjoint, and contain no switch / one-of machinery
Everything outside is still lock-stepped against the model; only the Sem-based monitors are withheld.
"""


def _adj(graph):
    succ, pred = {}, {}
    for n in graph['nodes']:
        succ[n['id']] = set()
        pred[n['id']] = set()
    for e in graph['edges']:
        succ[e['u']].add(e['v'])
        pred[e['v']].add(e['u'])
    return succ, pred


def _reach(adj, a):
    seen, st = {a}, [a]
    while st:
        x = st.pop()
        for y in adj[x]:
            if y not in seen:
                seen.add(y)
                st.append(y)
    return seen


def features(graph):
    """returns dict of shape facts used by the fragment predicates and reported in evidence"""
    succ, pred = _adj(graph)
    attr = {n['id']: n for n in graph['nodes']}
    switches = [i for i, a in attr.items() if a['is_switch']]
    heads = [i for i, a in attr.items() if a['is_oneof_head']]
    recs = [(a['start_node'], i) for i, a in attr.items() if a['start_node'] is not None]
    f = dict(n=len(attr), switches=len(switches), oneofs=len(heads), recs=len(recs))
    case_nodes = {e['u'] for e in graph['edges'] if e['case'] is not None}
    f['shared_case'] = any(succ[c] - set(switches) for c in case_nodes) or \
        any(len(succ[c] & set(switches)) > 1 for c in case_nodes)
    cands = [c for h in heads for c in attr[h]['oneof_nodes']]
    f['shared_cand'] = any(len(succ[c]) != 1 for c in cands) or len(set(cands)) != len(cands)
    anc = {c: _reach(pred, c) for c in cands}
    f['switch_in_cand'] = any(anc[c] & set(switches) for c in cands)
    f['rec_in_cand'] = any(anc[c] & {d for _, d in recs} for c in cands)
    f['oneof_in_cand'] = any((anc[c] - {c}) & set(heads) for c in cands)
    subs = []
    ok_rec = True
    f['switch_in_rec'] = f['oneof_in_rec'] = f['rec_overlap'] = f['rec_outside_reader'] = False
    for s, d in recs:
        sub = _reach(succ, s) & _reach(pred, d) if s in attr and d in attr else set()
        if not sub:
            ok_rec = False
        subs.append(sub)
        if sub & set(switches) or sub & case_nodes:
            f['switch_in_rec'] = True
        if sub & set(heads) or sub & set(cands):
            f['oneof_in_rec'] = True
        for x in sub - {d}:
            if succ[x] - sub:
                f['rec_outside_reader'] = True
        if len(succ[d]) != 1:
            f['rec_outside_reader'] = True
    for i in range(len(subs)):
        for j in range(i + 1, len(subs)):
            if subs[i] & subs[j]:
                f['rec_overlap'] = True
    # a recurrent destination's consumer inside another subgraph = nesting
    f['rec_bad'] = not ok_rec
    return f


EXCLUDING = ('rec_overlap',
             'rec_outside_reader', 'rec_bad')


def excluding_features(graph):
    f = features(graph)
    return [k for k in EXCLUDING if f.get(k)]


def in_fragment(graph):
    """(bool, reason) — is the program inside the fragment where Sem-based monitors apply"""
    f = features(graph)
    for k in EXCLUDING:
        if f.get(k):
            return False, k
    return True, 'ok'


def shape_class(graph):
    f = features(graph)
    ks = [k for k in ('switches', 'oneofs', 'recs') if f[k]]
    return '+'.join(ks) or 'plain'
